"""C19 - statements handed to the Neo4j driver are well-formed and data-independent.
The real Neo4jPropertyGraph / Neo4jASM / Neo4jCBMGraph methods run on a stand-in driver that records
(statement, parameters).  Every VALUE argument is a symbolic string of a fixed length; identifiers
(classes, relations, property names) are concrete vocabulary."""
import inspect
import re
from typing import List
from vf.prelude import R, begin
from vf.registry import harness, add
from fim.graph.neo4j_property_graph import Neo4jPropertyGraph, Neo4jGraphImporter
from fim.graph.abc_property_graph import ABCPropertyGraph


# ------------------------------------------------------------------ stand-in driver
class FakeRecord:
    def __init__(self):
        pass

    def data(self):
        return {'nodeids': [], 'candidate_ids': []}

    def value(self):
        return []

    def values(self):
        return []

    def __getitem__(self, i):
        return [] if isinstance(i, int) else []

    def get(self, k, d=None):
        return d


class FakeResult:
    def single(self):
        return FakeRecord()

    def value(self):
        return ['x']

    def values(self):
        return []

    def data(self):
        return []

    def peek(self):
        return FakeRecord()

    def __iter__(self):
        return iter([])


class FakeSession:
    def __init__(self, log):
        self.log = log

    def run(self, query, parameters=None, **kw):
        p = dict(parameters or {})
        p.update(kw)
        self.log.append((query, p))
        return FakeResult()

    def __enter__(self):
        return self

    def __exit__(self, *a):
        return False


class FakeDriver:
    def __init__(self):
        self.log = []

    def session(self, **kw):
        return FakeSession(self.log)

    def close(self):
        pass


def mk_graph(cls=Neo4jPropertyGraph, gid='graph-1'):
    imp = Neo4jGraphImporter.__new__(Neo4jGraphImporter)
    imp.driver = FakeDriver()
    import logging
    imp.log = logging.getLogger('c19')
    g = cls(graph_id=gid, importer=imp)
    return g, imp.driver


# ------------------------------------------------------------------ a small Cypher lexer (quotes, escapes)
def lex(text):
    """returns (skeleton, literals): the text with the CONTENT of every quoted literal replaced by '?', and the decoded
    literal values.  Raises ValueError for an unterminated literal."""
    out, lits = [], []
    i, n = 0, len(text)
    while i < n:
        ch = text[i]
        if ch == "'" or ch == '"':
            q = ch
            i += 1
            cur = []
            closed = False
            while i < n:
                c = text[i]
                if c == '\\':
                    if i + 1 >= n:
                        raise ValueError("dangling escape")
                    cur.append(text[i + 1])
                    i += 2
                    continue
                if c == q:
                    closed = True
                    i += 1
                    break
                cur.append(c)
                i += 1
            if not closed:
                raise ValueError("unterminated literal")
            out.append(q + '?' + q)
            lits.append(''.join(cur))
        else:
            out.append(ch)
            i += 1
    return ''.join(out), lits


def well_formed(stmt, params):
    """syntactic checks on a (value-independent) statement; returns a list of problems"""
    problems = []
    try:
        skel, _ = lex(stmt)
    except ValueError as e:
        return [str(e)]
    stack = []
    pairs = {')': '(', ']': '[', '}': '{'}
    for ch in skel:
        if ch in '([{':
            stack.append(ch)
        elif ch in ')]}':
            if not stack or stack.pop() != pairs[ch]:
                problems.append("unbalanced %s" % ch)
                break
    else:
        if stack:
            problems.append("unclosed %s" % ''.join(stack))
    if '{{' in skel or '}}' in skel:
        problems.append("template residue {{ or }}")
    for m in re.finditer(r'\{([A-Za-z_][A-Za-z_0-9\.]*)\}', skel):
        problems.append("unexpanded template fragment {%s}" % m.group(1))
    used = set(re.findall(r'\$([A-Za-z_][A-Za-z_0-9]*)', skel))
    for u in sorted(used - set(params)):
        problems.append("parameter $%s not supplied" % u)
    for s_ in sorted(set(params) - used):
        problems.append("supplied parameter %s not used" % s_)
    # variables referenced in RETURN / SET / REMOVE / WHERE must be bound in MATCH / WITH / YIELD / UNWIND / CALL
    bound = set(re.findall(r'[\(\[]\s*([A-Za-z_][A-Za-z_0-9]*)\s*(?::|\{|\)|\])', skel))
    bound |= set(re.findall(r'(?i)\b(?:as|yield)\s+([A-Za-z_][A-Za-z_0-9]*)', skel))
    bound |= set(re.findall(r'(?i)\b([A-Za-z_][A-Za-z_0-9]*)\s*=\s*(?:shortestPath|\()', skel))
    bound |= set(re.findall(r'(?i)\b(?:x|y)\b', skel))   # list-comprehension variables
    for m in re.finditer(r'(?i)\b(?:properties|labels|type|nodes|collect|head)\(\s*([A-Za-z_][A-Za-z_0-9]*)\s*[\)\.]', skel):
        if m.group(1) not in bound:
            problems.append("variable %s referenced but never bound" % m.group(1))
    for m in re.finditer(r'(?i)\b(?:SET|REMOVE)\s+([A-Za-z_][A-Za-z_0-9]*)\s*[\.\+]', skel):
        if m.group(1) not in bound:
            problems.append("variable %s updated but never bound" % m.group(1))
    return problems


# ------------------------------------------------------------------ operations and their arguments
IDENT = {'label': 'NetworkNode', 'node_label': 'ConnectionPoint', 'node1_label': 'Component', 'node2_label': 'NetworkService',
         'rel': 'has', 'rel1': 'has', 'rel2': 'connects', 'kind': 'connects', 'prop_name': 'Capacities', 'ntype': None}
VALUE_ARGS = {'node_id', 'node_a', 'node_b', 'node_z', 'prop_val', 'name', 'node_name', 'ntype'}


NOT_OPS = ('serialize_graph', 'validate_graph', 'get_graph_property_diff', 'get_bqm', 'merge_adm', 'unmerge_adm', 'snapshot', 'rollback')


def discover(cls):
    """public methods defined by the Neo4j backend classes themselves that hand at least one statement to the driver when
    tried with benign arguments (so an operation that reaches the driver through a helper is found too); a method whose
    arguments cannot be generated is kept and reported as unsupported, never dropped silently"""
    ops = []
    owners = [k for k in cls.__mro__ if k.__module__.startswith('fim.graph') and 'neo4j' in k.__module__]
    seen = set()
    for k in owners:
        for name, fn in k.__dict__.items():
            if name.startswith('_') or name in NOT_OPS or name in seen or not inspect.isfunction(fn):
                continue
            seen.add(name)
            try:
                build_args(cls, name, 'a', 'b')
            except KeyError:
                try:
                    src = inspect.getsource(fn)
                except (OSError, TypeError):
                    src = ''
                if 'session' in src or 'query' in src:
                    ops.append(name)
                continue
            try:
                got, _ = run_op(cls, name, 'a', 'b')
            except Exception:
                got = []
            if got:
                ops.append(name)
    return sorted(ops)


def build_args(cls, name, v, w):
    """keyword arguments for one operation: value parameters get the symbolic strings v / w"""
    sig = inspect.signature(getattr(cls, name))
    kw, uses = {}, []
    for pn, p in sig.parameters.items():
        if pn == 'self':
            continue
        if pn in ('node_id', 'node_a', 'prop_val', 'name', 'node_name'):
            kw[pn] = v
            uses.append(pn)
        elif pn in ('node_b', 'node_z', 'ntype'):
            kw[pn] = w
            uses.append(pn)
        elif pn in IDENT:
            kw[pn] = IDENT[pn]
        elif pn == 'props':
            kw[pn] = {'Name': v, 'Site': w}
            uses.append(pn)
        elif pn == 'other_graph':
            kw[pn] = mk_graph(cls, gid='graph-2')[0]
        elif pn == 'merge_properties':
            kw[pn] = {'Name': 'discard', 'Capacities': 'overwrite'}
        elif pn == 'hops':
            kw[pn] = [v, w]
            uses.append(pn)
        elif pn == 'cut_off':
            kw[pn] = 5
        elif p.default is not inspect.Parameter.empty:
            continue
        else:
            raise KeyError("no argument generator for parameter %s of %s" % (pn, name))
    return kw, uses


def run_op(cls, name, v, w, gid='graph-1'):
    g, drv = mk_graph(cls, gid)
    kw, uses = build_args(cls, name, v, w)
    fn = getattr(g, name)
    try:
        if list(inspect.signature(fn).parameters.values()) and \
                list(inspect.signature(fn).parameters.values())[0].kind == inspect.Parameter.POSITIONAL_OR_KEYWORD:
            fn(**kw)
        else:
            fn(**kw)
    except Exception:
        pass    # post-processing of the stand-in's empty answers; the statements are already recorded
    return [(q, p) for (q, p) in drv.log], uses


def _mk(cls, name, L):
    def h_stmt(v: str, w: str) -> bool:
        """
        pre: len(v) == L and len(w) == L
        post: R(_)
        """
        begin()
        _closure = (L,)
        ref_v, ref_w = 'a' * L, 'b' * L
        got, uses = run_op(cls, name, v, w)
        ref, _ = run_op(cls, name, ref_v, ref_w)
        if len(got) != len(ref) or len(got) == 0:
            return False
        for (q, p), (rq, rp) in zip(got, ref):
            # (ii) well-formedness of the reference text
            if well_formed(rq, rp):
                return False
            # (i) data independence: same skeleton for every value, every literal decodes to the value that produced it,
            #     a value that is not in a literal is a parameter
            try:
                sk, lits = lex(q)
            except ValueError:
                return False      # the value broke out of its literal
            rsk, rlits = lex(rq)
            if sk != rsk or len(lits) != len(rlits):
                return False
            for a, b in zip(lits, rlits):
                if b == ref_v:
                    if a != v:
                        return False
                elif b == ref_w:
                    if a != w:
                        return False
                elif a != b:
                    return False
            if sorted(p.keys()) != sorted(rp.keys()):
                return False
            for k in rp:
                if rp[k] == ref_v:
                    if p[k] != v:
                        return False
                elif rp[k] == ref_w:
                    if p[k] != w:
                        return False
        return True
    return h_stmt


def _mk_gid(cls, name):
    def h_gid(gid: str) -> bool:
        """
        pre: len(gid) == 2
        post: R(_)
        """
        begin()
        got, _ = run_op(cls, name, 'v1', 'w1', gid)
        ref, _ = run_op(cls, name, 'v1', 'w1', 'gg')
        if len(got) != len(ref) or len(got) == 0:
            return False
        for (q, p), (rq, rp) in zip(got, ref):
            try:
                sk, lits = lex(q)
            except ValueError:
                return False
            rsk, rlits = lex(rq)
            if sk != rsk or len(lits) != len(rlits):
                return False
            for a, b in zip(lits, rlits):
                if (b == 'gg' and a != gid) or (b != 'gg' and a != b):
                    return False
            for k in rp:
                if rp[k] == 'gg' and p.get(k) != gid:
                    return False
        return True
    return h_gid


ENC_BASE = "fim.graph.neo4j_property_graph.Neo4jPropertyGraph."
_classes = [Neo4jPropertyGraph]
try:
    from fim.graph.slices.neo4j_asm import Neo4jASM
    _classes.append(Neo4jASM)
except Exception:
    pass
try:
    from fim.graph.resources.neo4j_cbm import Neo4jCBMGraph
    _classes.append(Neo4jCBMGraph)
except Exception:
    pass

_seen = set()
for _cls in _classes:
    for _name in discover(_cls):
        _owner = [k for k in _cls.__mro__ if _name in k.__dict__][0]
        if (_owner, _name) in _seen:
            continue
        _seen.add((_owner, _name))
        _q = "%s.%s.%s" % (_owner.__module__, _owner.__name__, _name)
        try:
            build_args(_owner if _owner is not ABCPropertyGraph else _cls, _name, 'a', 'b')
        except KeyError as _e:
            # not skipped silently: a harness that fails, so the missing generator is reported as an engine mismatch
            def _bad(dummy: bool, _m=str(_e)) -> bool:
                """
                post: R(_)
                """
                raise KeyError(_m)
            add("stmt/%s.%s/unsupported" % (_owner.__name__, _name), _bad, timeout=30, encodes=(_q,), bounds="argument generator missing")
            continue
        for _L in (1, 2):
            add("stmt/%s.%s/len%d" % (_owner.__name__, _name, _L), _mk(_cls, _name, _L), timeout=400, encodes=(_q,),
                tiers=("quick", "thorough") if _L == 1 else ("thorough",),
                bounds="every value argument (node ids, property values, names) a symbolic string of length %d (any characters: quotes, "
                       "backslashes, braces, dollar, newline); identifiers from the concrete vocabulary" % _L)
        add("stmt/%s.%s/graphid" % (_owner.__name__, _name), _mk_gid(_cls, _name), timeout=400, encodes=(_q,), tiers=("thorough",),
            bounds="graph id a symbolic string of length 2")
