"""C02 - sliver <-> graph properties / deep dictionary / JSON conversion preserves every settable field, and
model elements read back what was set.  The setter list of every sliver class is discovered at run time; a
setter without a value generator fails its harness (reported, not skipped)."""
import ipaddress
from typing import List
from vf.prelude import R, begin, JSONSHIM
from vf.registry import harness, add
from fim.graph.abc_property_graph import ABCPropertyGraph
from fim.slivers.json import JSONSliver
from fim.slivers.network_node import NodeSliver, NodeType
from fim.slivers.attached_components import ComponentSliver, AttachedComponentsInfo, ComponentType
from fim.slivers.network_service import NetworkServiceSliver, NetworkServiceInfo, ServiceType, NSLayer, MirrorDirection
from fim.slivers.interface_info import InterfaceSliver, InterfaceInfo, InterfaceType
from fim.slivers.network_link import NetworkLinkSliver, LinkType
from fim.slivers.capacities_labels import (Capacities, CapacityHints, Labels, ReservationInfo, StructuralInfo, Location, Flags)
from fim.slivers.delegations import Delegations, Delegation, DelegationType, DelegationFormat
from fim.slivers.tags import Tags
from fim.slivers.json_data import UserData, MeasurementData, LayoutData
from fim.slivers.gateway import Gateway
from fim.slivers.path_info import Path, PathInfo, ERO
from fim.slivers.maintenance_mode import MaintenanceInfo, MaintenanceEntry, MaintenanceState

G = "fim.graph.abc_property_graph.ABCPropertyGraph."
ENC = tuple(G + m for m in ("base_sliver_to_graph_properties_dict", "node_sliver_to_graph_properties_dict", "component_sliver_to_graph_properties_dict",
                            "network_service_sliver_to_graph_properties_dict", "interface_sliver_to_graph_properties_dict",
                            "link_sliver_to_graph_properties_dict", "set_base_sliver_properties_from_graph_properties_dict",
                            "node_sliver_from_graph_properties_dict", "component_sliver_from_graph_properties_dict",
                            "network_service_sliver_from_graph_properties_dict", "interface_sliver_from_graph_properties_dict",
                            "link_sliver_from_graph_properties_dict", "sliver_to_dict", "build_deep_node_sliver_from_dict",
                            "build_deep_ns_sliver_from_dict", "build_deep_component_sliver_from_dict", "build_deep_interface_sliver_from_dict")) + \
    ("fim.slivers.json.JSONSliver.sliver_to_json", "fim.slivers.json.JSONSliver.node_sliver_from_json")

CLASSES = {
    'node': (NodeSliver, ABCPropertyGraph.node_sliver_to_graph_properties_dict, ABCPropertyGraph.node_sliver_from_graph_properties_dict,
             ABCPropertyGraph.build_deep_node_sliver_from_dict),
    'component': (ComponentSliver, ABCPropertyGraph.component_sliver_to_graph_properties_dict,
                  ABCPropertyGraph.component_sliver_from_graph_properties_dict, ABCPropertyGraph.build_deep_component_sliver_from_dict),
    'service': (NetworkServiceSliver, ABCPropertyGraph.network_service_sliver_to_graph_properties_dict,
                ABCPropertyGraph.network_service_sliver_from_graph_properties_dict, ABCPropertyGraph.build_deep_ns_sliver_from_dict),
    'interface': (InterfaceSliver, ABCPropertyGraph.interface_sliver_to_graph_properties_dict,
                  ABCPropertyGraph.interface_sliver_from_graph_properties_dict, ABCPropertyGraph.build_deep_interface_sliver_from_dict),
    'link': (NetworkLinkSliver, ABCPropertyGraph.link_sliver_to_graph_properties_dict, ABCPropertyGraph.link_sliver_from_graph_properties_dict,
             ABCPropertyGraph.build_deep_link_sliver_from_dict),
}
TYPE_ENUM = {'node': NodeType, 'component': ComponentType, 'service': ServiceType, 'interface': InterfaceType, 'link': LinkType}
SKIP = {'network_service_info', 'properties', 'property'}     # containers, not settable values


def _deleg(atype, n, s):
    ds = Delegations(atype=atype)
    d = Delegation(atype=atype, delegation_id='del1', aformat=DelegationFormat.SinglePool)
    d.set_details(Capacities(unit=n + 1) if atype == DelegationType.CAPACITY else Labels(local_name=s, vlan_range='1-9'))
    ds.add_delegations(d)
    return ds


def _maint(i):
    m = MaintenanceInfo()
    m.add('w1', MaintenanceEntry(state=list(MaintenanceState)[i % 4], deadline='2030-01-01T00:00:00+00:00'))
    return m


def _ero(s, strict):
    e = ERO(strict=strict)
    p = Path()
    p.set_symmetric([s, 'hopB'])
    e.set(p)
    return e


def _pathinfo(s):
    pi = PathInfo()
    p = Path()
    p.set(a2z=[s], z2a=['x', s])
    pi.set(p)
    return pi


def gen(kind, prop, n, s, i, b):
    """value for one settable property from the symbolic scalars: n unbounded int >= 0, s short str, i small index, b bool"""
    if prop == 'name':
        return ['ab', 'node-1', 'x.y_z'][i % 3]
    if prop == 'type':
        vals = list(TYPE_ENUM[kind])
        return vals[i % len(vals)]
    if prop in ('model', 'details', 'site', 'allocation_constraints', 'technology', 'controller_url', 'mirror_port', 'mirror_vlan',
                'boot_script', 'image_type'):
        return s
    if prop == 'image_ref':
        return s
    if prop in ('capacities', 'capacity_allocations'):
        return Capacities(core=n, ram=n + 1, unit=i % 3)
    if prop == 'capacity_hints':
        return CapacityHints(instance_type=s)
    if prop in ('labels', 'label_allocations', 'peer_labels'):
        return Labels(local_name=s, vlan=['100', '7'][i % 2], device_name=[s, 'd2']) if b else Labels(instance=s)
    if prop == 'capacity_delegations':
        return _deleg(DelegationType.CAPACITY, n, s)
    if prop == 'label_delegations':
        return _deleg(DelegationType.LABEL, n, s)
    if prop == 'reservation_info':
        return ReservationInfo(reservation_id=s, reservation_state='Active')
    if prop == 'structural_info':
        return StructuralInfo(adm_graph_ids=[s, 'g2'], sub_graph_id='sg')
    if prop == 'node_map':
        return (s, 'node-x')
    if prop == 'stitch_node':
        return b
    if prop == 'tags':
        return Tags(['blue', 'tag-1', 'a_b'][i % 3], 'second')
    if prop == 'flags':
        return Flags(auto_config=b, ptp=not b, ipv4_management=(i % 2 == 0))
    if prop == 'mf_data':
        return MeasurementData({'k': n, 's': s})
    if prop == 'user_data':
        return UserData({'k': [n, s], 'b': b})
    if prop == 'layout_data':
        return LayoutData({'x': n})
    if prop == 'management_ip':
        return ['10.0.0.1', '2001:db8::1', '192.168.1.254'][i % 3]
    if prop == 'service_endpoint':
        return s
    if prop == 'location':
        return Location(postal=s, lat=1.5, lon=-2.25) if b else Location(postal=s)
    if prop == 'maintenance_info':
        return _maint(i)
    if prop == 'layer':
        return list(NSLayer)[i % len(list(NSLayer))]
    if prop == 'ero':
        return _ero(s, b)
    if prop == 'path_info':
        return _pathinfo(s)
    if prop == 'gateway':
        return Gateway(Labels(ipv4=['10.0.0.1', '10.9.9.9'][i % 2], ipv4_subnet='10.0.0.0/8', mac='00:11:22:33:44:55')) if b else \
            Gateway(Labels(ipv6='2001:db8::1', ipv6_subnet='2001:db8::/48'))
    if prop == 'mirror_direction':
        return list(MirrorDirection)[i % len(list(MirrorDirection))]
    raise KeyError("no value generator for settable property %r of %s sliver" % (prop, kind))


def _empty(v):
    """a structured value with nothing set is encoded as empty text and read back as absent"""
    return isinstance(v, (Capacities, CapacityHints, Labels, ReservationInfo, StructuralInfo, Location)) and v.to_json() == ''


def same_value(a, b):
    """equality of a field value through its own encoder"""
    if a is None or b is None:
        if a is None and b is None:
            return True
        return _empty(a) or _empty(b)
    if isinstance(a, (Capacities, CapacityHints, Labels, ReservationInfo, StructuralInfo, Location, Flags)):
        if type(a) is not type(b):
            return False
        for k in a.__dict__:
            va, vb = a.__dict__[k], b.__dict__.get(k)
            if (va is None) != (vb is None) or (va is not None and va != vb):
                return False
        return True
    if isinstance(a, Delegations):
        return isinstance(b, Delegations) and JSONSHIM.same_text(a.to_json(), b.to_json())
    if isinstance(a, Tags):
        return isinstance(b, Tags) and list(a.tags) == list(b.tags)
    if isinstance(a, (UserData, MeasurementData, LayoutData)):
        return type(a) is type(b) and a.data == b.data
    if isinstance(a, Gateway):
        return isinstance(b, Gateway) and same_value(a.lab, b.lab)
    if isinstance(a, PathInfo):     # incl. ERO
        return type(a) is type(b) and JSONSHIM.same_text(a.to_json(), b.to_json())
    if isinstance(a, MaintenanceInfo):
        return isinstance(b, MaintenanceInfo) and a.to_json() == b.to_json()
    if isinstance(a, tuple) or isinstance(b, tuple):
        return list(a) == list(b)       # node_map: a pair; JSON has no tuples
    if isinstance(a, (ipaddress.IPv4Address, ipaddress.IPv6Address)) or isinstance(b, (ipaddress.IPv4Address, ipaddress.IPv6Address)):
        return str(a) == str(b)
    return a == b


def settable(kind):
    cls = CLASSES[kind][0]
    return [p for p in sorted(cls.list_properties()) if p not in SKIP]


def _mk_prop(kind, prop):
    cls, to_d, from_d, deep_from = CLASSES[kind]

    def h_prop(n: int, s: str, i: int, b: bool) -> bool:
        """
        pre: n >= 0 and len(s) <= 2 and 0 <= i < 6
        post: R(_)
        """
        begin()
        x = cls()
        x.set_name('elem1')
        x.set_type(list(TYPE_ENUM[kind])[0])
        if prop == 'image_ref':
            x.set_property('image_type', 'qcow2')     # stored as one graph property with the reference
        if prop == 'image_type':
            x.set_property('image_ref', 'default_ubuntu')
        v = gen(kind, prop, n, s, i, b)
        x.set_property(prop, v)
        want = x.get_property(prop)
        # graph property dictionary and back
        d = to_d(x)
        d['NodeID'] = 'id-1'
        y = from_d(d)
        if not same_value(want, y.get_property(prop)) or y.node_id != 'id-1':
            return False
        if prop not in ('name', 'type') and (y.get_name() != 'elem1' or y.get_type() != x.get_type()):
            return False
        # deep dictionary (and its JSON form) and back
        dd = ABCPropertyGraph.sliver_to_dict(x)
        z = deep_from(props=dd)
        if not same_value(want, z.get_property(prop)):
            return False
        # re-encoding the rebuilt sliver gives the same dictionary
        d2 = to_d(y)
        for k in d:
            if k == 'NodeID':
                continue
            if k not in d2 or not (d2[k] == d[k] or JSONSHIM.same_text(d2[k], d[k])):
                return False
        return True
    return h_prop


for _kind in CLASSES:
    for _p in settable(_kind):
        add("roundtrip/%s/%s" % (_kind, _p), _mk_prop(_kind, _p), timeout=300, encodes=ENC, finding="image" if _p.startswith('image') else None,
            bounds="%s sliver, setter %s: value built from symbolic scalars (unbounded int >= 0, str len<=2, index, bool) through graph property "
                   "dictionary and deep dictionary and back; other fields and re-encoding unchanged" % (_kind, _p))


@harness("roundtrip/setter_lists_covered", timeout=60, encodes=ENC, bounds="concrete: every discovered setter has a value generator")
def h_cover(dummy: bool) -> bool:
    """
    post: R(_)
    """
    for kind in CLASSES:
        for p in settable(kind):
            gen(kind, p, 1, 'a', 0, True)
    return True


# ------------------------------------------------------------------ nesting
def _iface(name, itype, nsub, s):
    i = InterfaceSliver()
    i.set_name(name)
    i.set_type(itype)
    i.node_id = 'id-' + name
    i.set_labels(Labels(local_name=s))
    if nsub:
        ii = InterfaceInfo()
        for k in range(nsub):
            c = InterfaceSliver()
            c.set_name('%s-sub%d' % (name, k))
            c.set_type(InterfaceType.SubInterface)
            c.node_id = 'id-%s-sub%d' % (name, k)
            ii.add_interface(c)
        i.interface_info = ii
    return i


def _svc(name, nif, nsub, s, n):
    ns = NetworkServiceSliver()
    ns.set_name(name)
    ns.set_type(ServiceType.OVS)
    ns.node_id = 'id-' + name
    ns.set_capacities(Capacities(bw=n))
    if nif:
        ii = InterfaceInfo()
        for k in range(nif):
            ii.add_interface(_iface('%s-p%d' % (name, k), InterfaceType.DedicatedPort, nsub if k == 0 else 0, s))
        ns.interface_info = ii
    return ns


def shape_of(node):
    """(component names -> (service names -> (interface names -> sub names))), node services likewise"""
    def svc_shape(info):
        out = []
        if info is None:
            return out
        for sname in sorted(info.network_services):
            sv = info.network_services[sname]
            ifs = []
            if sv.interface_info is not None:
                for iname in sorted(sv.interface_info.interfaces):
                    it = sv.interface_info.interfaces[iname]
                    subs = sorted(it.interface_info.interfaces) if it.interface_info is not None else []
                    ifs.append((iname, subs, it.get_labels().local_name if it.get_labels() else None))
            # an all-zero Capacities is the canonical 'nothing set' and is read back as absent (C03): compare bw with 0 == absent
            out.append((sname, sv.get_capacities().bw if sv.get_capacities() else 0, ifs))
        return out
    comps = []
    if node.attached_components_info is not None:
        for cname in sorted(node.attached_components_info.devices):
            c = node.attached_components_info.devices[cname]
            comps.append((cname, str(c.get_type()), svc_shape(c.network_service_info)))
    return comps, svc_shape(node.network_service_info)


@harness("nesting/deep_dict_and_json", timeout=600, encodes=ENC,
         bounds="node with 0..2 components, each 0..1 service with 0..2 interfaces, the first with 0..2 sub-interfaces, 0..1 node-level service "
                "(counts symbolic); interface labels symbolic str len<=2, service bandwidth unbounded int; deep dictionary, JSON text and back")
def h_nest(nc: int, ns0: int, nif: int, nsub: int, nns: int, s: str, n: int) -> bool:
    """
    pre: 0 <= nc <= 2 and 0 <= ns0 <= 1 and 0 <= nif <= 2 and 0 <= nsub <= 2 and 0 <= nns <= 1
    pre: len(s) <= 2 and n >= 0
    post: R(_)
    """
    begin()
    node = NodeSliver()
    node.set_name('node1')
    node.set_type(NodeType.VM)
    node.node_id = 'id-node1'
    if nc:
        aci = AttachedComponentsInfo()
        for k in range(nc):
            c = ComponentSliver()
            c.set_name('comp%d' % k)
            c.set_type(ComponentType.SmartNIC)
            c.node_id = 'id-comp%d' % k
            if ns0 and k == 0:
                nsi = NetworkServiceInfo()
                nsi.add_network_service(_svc('comp0-svc', nif, nsub, s, n))
                c.set_network_service_info(nsi)
            aci.add_device(c)
        node.attached_components_info = aci
    if nns:
        nsi = NetworkServiceInfo()
        nsi.add_network_service(_svc('nodesvc', nif, 0, s, n))
        node.network_service_info = nsi
    want = shape_of(node)
    d = ABCPropertyGraph.sliver_to_dict(node)
    back = ABCPropertyGraph.build_deep_node_sliver_from_dict(props=d)
    if shape_of(back) != want:
        return False
    j = JSONSliver.sliver_to_json(node)
    back2 = JSONSliver.node_sliver_from_json(j)
    return shape_of(back2) == want and back2.get_name() == 'node1'
