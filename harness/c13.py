"""C13 - partitioning an aggregate model by delegation yields sound per-delegation models (in-memory backend).
A raw substrate skeleton (worker - component - OVS service - port - link - port - switch service - switch,
facility with port, optional stitch node) is annotated from symbolic choices: for each of 3 delegable nodes
which label / capacity delegation id (none, d1, d2) it carries, single or pooled; the remaining two nodes carry
fixed delegations.  Once the choices are resolved (each a solver-decided fork) the partitioning itself runs
with tracing off and the oracles run on the concrete result."""
import json
from typing import List
import networkx as nx
from vf.prelude import R, begin
from vf.registry import harness, add
from harness.topolib import untraced
from fim.graph.networkx_property_graph import NetworkXPropertyGraph, NetworkXGraphImporter
from fim.graph.resources.networkx_arm import NetworkXARMGraph
from fim.graph.resources.networkx_adm import NetworkXADMGraph, NetworkXADMFactory
from fim.graph.abc_property_graph import ABCPropertyGraph

ENC = ("fim.graph.resources.abc_arm.ABCARMPropertyGraph.generate_adms", "fim.graph.resources.abc_arm.ABCARMPropertyGraph.catalog_delegations",
       "fim.graph.resources.abc_arm.ABCARMPropertyGraph._update_delegations_on_node", "fim.graph.resources.abc_arm.ABCARMPropertyGraph.get_delegations",
       "fim.graph.resources.abc_adm.ABCADMPropertyGraph.rewrite_delegations", "fim.graph.networkx_property_graph.NetworkXPropertyGraph.get_stitch_nodes",
       "fim.graph.networkx_property_graph.NetworkXPropertyGraph.clone_graph",
       "fim.graph.networkx_property_graph.NetworkXPropertyGraph.get_first_and_second_neighbor")
DIDS = [None, 'del1', 'del2']
LD, CD = ABCPropertyGraph.PROP_LABEL_DELEGATIONS, ABCPropertyGraph.PROP_CAPACITY_DELEGATIONS
# (key, Class, Type, Name)
NODES = [('W', 'NetworkNode', 'Server', 'worker1'), ('C', 'Component', 'SharedNIC', 'nic1'), ('S', 'NetworkService', 'OVS', 'nic1-ovs'),
         ('P', 'ConnectionPoint', 'SharedPort', 'p1'), ('L', 'Link', 'L2Path', 'l1'), ('P2', 'ConnectionPoint', 'TrunkPort', 'sp1'),
         ('S2', 'NetworkService', 'MPLS', 'sw-ns'), ('SW', 'NetworkNode', 'Switch', 'dp1'),
         ('F', 'NetworkNode', 'Facility', 'fac1'), ('FS', 'NetworkService', 'VLAN', 'fac1-ns'), ('FP', 'ConnectionPoint', 'FacilityPort', 'fp1'),
         ('L2', 'Link', 'L2Path', 'l2'), ('P3', 'ConnectionPoint', 'TrunkPort', 'sp2'),
         ('G', 'Component', 'GPU', 'gpu1')]
EDGES = [('W', 'C', 'has'), ('C', 'S', 'has'), ('S', 'P', 'connects'), ('P', 'L', 'connects'), ('L', 'P2', 'connects'), ('S2', 'P2', 'connects'),
         ('SW', 'S2', 'has'), ('F', 'FS', 'has'), ('FS', 'FP', 'connects'), ('FP', 'L2', 'connects'), ('L2', 'P3', 'connects'), ('S2', 'P3', 'connects'),
         ('W', 'G', 'has')]


def deleg_json(kind, did, pooled, node_key):
    if did is None:
        return None
    field = 'labels' if kind == 'label' else 'capacities'
    val = {'vlan_range': '100-200'} if kind == 'label' else {'unit': 2}
    if pooled:
        return json.dumps({did: {'pool_id': 'pool-' + node_key, field: val}})
    return json.dumps({did: {'pool_id': '_', field: val}})


def build(ann, stitch):
    """ann: {node key: (label did idx, capacity did idx, pooled)}"""
    g = nx.Graph()
    idx = {}
    for i, (k, cls, typ, name) in enumerate(NODES):
        props = {'NodeID': 'id-' + k, 'Class': cls, 'Type': typ, 'Name': name, 'StitchNode': 'true' if (stitch and k == 'P3') else 'false',
                 'Capacities': json.dumps({'unit': 4})}
        if k in ann:
            li, ci, pooled = ann[k]
            lj, cj = deleg_json('label', DIDS[li], pooled, k), deleg_json('capacity', DIDS[ci], pooled, k)
            if lj is not None:
                props[LD] = lj
            if cj is not None:
                props[CD] = cj
        g.add_node(i + 1, **props)
        idx[k] = i + 1
    for a, b, rel in EDGES:
        g.add_edge(idx[a], idx[b], Class=rel)
    imp = NetworkXGraphImporter()
    imp.storage.add_graph('arm1', g)
    return imp, NetworkXARMGraph(graph=NetworkXPropertyGraph(graph_id='arm1', importer=imp))


def snapshot(imp, gid):
    g = imp.storage.extract_graph(gid)
    nodes = {g.nodes[n]['NodeID']: dict(g.nodes[n]) for n in g.nodes}
    edges = sorted((min(g.nodes[a]['NodeID'], g.nodes[b]['NodeID']), max(g.nodes[a]['NodeID'], g.nodes[b]['NodeID']), g.edges[(a, b)].get('Class'))
                   for a, b in g.edges)
    return nodes, edges


def check(ann, stitch):
    """returns a list of problems (empty = partitioning is sound)"""
    imp, arm = build(ann, stitch)
    before = snapshot(imp, 'arm1')
    adms = arm.generate_adms()
    problems = []
    if snapshot(imp, 'arm1') != before:
        problems.append("the original model was modified")
    onodes, oedges = before
    want_ids = set()
    for k, (li, ci, pooled) in ann.items():
        for d in (DIDS[li], DIDS[ci]):
            if d is not None:
                want_ids.add(d)
    if set(adms.keys()) != want_ids:
        problems.append("partitions %s, expected %s" % (sorted(adms.keys()), sorted(want_ids)))
    for did, adm in adms.items():
        nodes, edges = snapshot(imp, adm.graph_id)
        for nid, p in nodes.items():
            if nid not in onodes:
                problems.append("%s: node %s not in the original" % (did, nid))
                continue
            for pk, pv in p.items():
                if pk in ('GraphID', LD, CD):
                    continue
                if onodes[nid].get(pk) != pv:
                    problems.append("%s: property %s of %s changed" % (did, pk, nid))
            for pk in onodes[nid]:
                if pk not in (LD, CD) and pk not in p:
                    problems.append("%s: property %s of %s lost" % (did, pk, nid))
            for dprop in (LD, CD):
                if dprop in p and p[dprop]:
                    keys = list(json.loads(p[dprop]).keys())
                    if keys != [did]:
                        problems.append("%s: node %s carries delegation entries %s" % (did, nid, keys))
                    elif json.loads(p[dprop])[did] != json.loads(onodes[nid].get(dprop) or '{}').get(did):
                        problems.append("%s: delegation entry of %s altered" % (did, nid))
        # every resource delegated to did is present with its entry
        for k, (li, ci, pooled) in ann.items():
            nid = 'id-' + k
            for dprop, di in ((LD, li), (CD, ci)):
                if DIDS[di] == did:
                    if nid not in nodes or not nodes[nid].get(dprop) or did not in json.loads(nodes[nid][dprop] or '{}'):
                        problems.append("%s: delegated resource %s (%s) missing" % (did, nid, dprop))
                elif nid in nodes and nodes[nid].get(dprop):
                    problems.append("%s: node %s carries a foreign %s" % (did, nid, dprop))
        # sub-model: every original edge between two kept nodes is kept, nothing else
        kept = set(nodes.keys())
        exp_edges = [e for e in oedges if e[0] in kept and e[1] in kept]
        if edges != exp_edges:
            problems.append("%s: edges differ from the induced sub-model" % did)
        # each kept interface keeps its link, its peer, its owning service and that service's owner
        adj = {}
        for a, b, rel in oedges:
            adj.setdefault(a, []).append(b)
            adj.setdefault(b, []).append(a)
        for nid in kept:
            if onodes[nid]['Class'] != 'ConnectionPoint':
                continue
            # every kept interface (delegated or pulled in as a peer) keeps its owning service and that service's owner
            for svc in [x for x in adj.get(nid, []) if onodes[x]['Class'] == 'NetworkService']:
                if svc not in kept:
                    problems.append("%s: owning service of kept interface %s dropped" % (did, nid))
                for own in [x for x in adj.get(svc, []) if onodes[x]['Class'] in ('NetworkNode', 'Component')]:
                    if own not in kept:
                        problems.append("%s: owner of the service of kept interface %s dropped" % (did, nid))
            if not any(DIDS[x] == did for x in ann.get(nid[3:], (0, 0, 0))[:2]):
                continue
            for l in [x for x in adj.get(nid, []) if onodes[x]['Class'] == 'Link']:
                if l not in kept:
                    problems.append("%s: link of kept interface %s dropped" % (did, nid))
                for peer in [x for x in adj.get(l, []) if x != nid]:
                    if peer not in kept:
                        problems.append("%s: peer of kept interface %s dropped" % (did, nid))
            for svc in [x for x in adj.get(nid, []) if onodes[x]['Class'] == 'NetworkService']:
                if svc not in kept:
                    problems.append("%s: owning service of kept interface %s dropped" % (did, nid))
                for own in [x for x in adj.get(svc, []) if onodes[x]['Class'] in ('NetworkNode', 'Component')]:
                    if own not in kept:
                        problems.append("%s: owner of the service of kept interface %s dropped" % (did, nid))
        if stitch and 'id-P3' not in kept:
            problems.append("%s: stitch node missing" % did)
        # re-keying changes only the key
        if problems:
            continue      # the partition is already unsound; re-keying it is not meaningful
        a2 = NetworkXADMFactory.create(adm)
        pre = snapshot(imp, adm.graph_id)
        a2.rewrite_delegations(real_adm_id='real-' + did)
        post = snapshot(imp, adm.graph_id)
        if post[1] != pre[1] or set(post[0]) != set(pre[0]):
            problems.append("%s: rewrite_delegations changed structure" % did)
        for nid in pre[0]:
            for pk, pv in pre[0][nid].items():
                if pk in (LD, CD) and pv:
                    if json.loads(post[0][nid][pk]) != {'real-' + did: json.loads(pv).get(did)}:
                        problems.append("%s: rewrite_delegations altered more than the key on %s" % (did, nid))
                elif post[0][nid].get(pk) != pv:
                    problems.append("%s: rewrite_delegations changed %s of %s" % (did, pk, nid))
    return problems


def _c(v, bound):
    v = v % bound
    for k in range(bound):
        if v == k:
            return k
    raise ValueError


def _mk(sym_keys, fixed):
    def h_adm(l0: int, c0: int, l1: int, c1: int, l2: int, c2: int, pooled: bool, stitch: bool) -> bool:
        """
        pre: 0 <= l0 < 3 and 0 <= c0 < 3 and 0 <= l1 < 3 and 0 <= c1 < 3 and 0 <= l2 < 3 and 0 <= c2 < 3
        post: R(_)
        """
        begin()
        vals = [(_c(l0, 3), _c(c0, 3)), (_c(l1, 3), _c(c1, 3)), (_c(l2, 3), _c(c2, 3))]
        pooled_, stitch_ = bool(pooled), bool(stitch)
        ann = dict(fixed)
        for k, (li, ci) in zip(sym_keys, vals):
            ann[k] = (li, ci, pooled_)
        if not any(li or ci for (li, ci, _) in ann.values()):
            return True       # nothing delegated: generate_adms returns no partitions
        return untraced(check, ann, stitch_) == []
    return h_adm


FAMILIES = {
    'worker_nic_port': (('W', 'C', 'P'), {'SW': (1, 1, False), 'P2': (1, 0, False)}),
    'switch_ports': (('SW', 'P2', 'P3'), {'W': (0, 1, False), 'FP': (2, 0, False)}),
    'facility_gpu': (('F', 'FP', 'G'), {'W': (1, 1, False)}),
}
for _name, (_keys, _fixed) in FAMILIES.items():
    add("partition/" + _name, _mk(_keys, _fixed), timeout=900, encodes=ENC, finding="unset_absent",
        tiers=("quick", "thorough") if _name != 'facility_gpu' else ("thorough",),
        bounds="14-node substrate skeleton; for each of the nodes %s: label delegation id in {none,del1,del2} x capacity delegation id in "
               "{none,del1,del2} (symbolic), single or pooled (symbolic), stitch flag on a switch port (symbolic); other delegations fixed %s"
               % (list(_keys), _fixed))
