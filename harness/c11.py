"""C11 - authorization / accounting attributes: completeness against a direct tally and
independence of the collection order (sliver level)."""
import itertools
from typing import List
from vf.prelude import R, begin
from vf.registry import harness, add
from fim.authz.attribute_collector import ResourceAuthZAttributes as RA
from fim.logging.log_collector import LogCollector
from fim.slivers.network_node import NodeSliver, NodeType
from fim.slivers.network_service import NetworkServiceSliver, ServiceType
from fim.slivers.attached_components import ComponentSliver, AttachedComponentsInfo, ComponentType
from fim.slivers.capacities_labels import Capacities

ENC = ("fim.authz.attribute_collector.ResourceAuthZAttributes._collect_attributes_from_node_sliver",
       "fim.authz.attribute_collector.ResourceAuthZAttributes._collect_attributes_from_ns_sliver",
       "fim.authz.attribute_collector.ResourceAuthZAttributes._collect_attributes_from_base_sliver",
       "fim.authz.attribute_collector.ResourceAuthZAttributes.collect_resource_attributes",
       "fim.authz.attribute_collector.ResourceAuthZAttributes.transform_to_pdp_request")
ENC_LOG = ("fim.logging.log_collector.LogCollector._collect_attributes_from_node_sliver",
           "fim.logging.log_collector.LogCollector._collect_attributes_from_ns_sliver",
           "fim.logging.log_collector.LogCollector._collect_attributes_from_component_sliver",
           "fim.logging.log_collector.LogCollector.collect_resource_attributes")
SITES = [None, 'RENC', 'UKY', 'LBNL']
PORTS = ['p-in-1', 'p-in-2', 'p-out-1', 'p-out-2']
IN_SLICE = {'p-in-1', 'p-in-2'}
STYPES = [ServiceType.PortMirror, ServiceType.FABNetv4Ext, ServiceType.FABNetv6Ext, ServiceType.L2STS]
CTYPES = [ComponentType.GPU, ComponentType.SmartNIC, ComponentType.NVME]
NTYPES = [NodeType.VM, NodeType.Switch]
EXT_ATTR = {ServiceType.PortMirror: RA.RESOURCE_MIRROR_SITE, ServiceType.FABNetv4Ext: RA.RESOURCE_FABNETV4_EXT,
            ServiceType.FABNetv6Ext: RA.RESOURCE_FABNETV6_EXT}


def mk_service(i, ti, si, pi, bw, hascap):
    s = NetworkServiceSliver()
    s.set_name('svc%d' % i)
    s.set_type(STYPES[ti])
    if SITES[si] is not None:
        s.set_site(SITES[si])
    if hascap:
        s.set_capacities(Capacities(bw=bw))
    if STYPES[ti] == ServiceType.PortMirror:
        s.mirror_port = PORTS[pi]
    return s


def mk_node(i, ti, si, core, ram, disk, hascap, comps):
    n = NodeSliver()
    n.set_name('node%d' % i)
    n.set_type(NTYPES[ti])
    if SITES[si] is not None:
        n.set_site(SITES[si])
    if hascap:
        n.set_capacities(Capacities(core=core, ram=ram, disk=disk))
    if comps:
        aci = AttachedComponentsInfo()
        for j, ci in enumerate(comps):
            c = ComponentSliver()
            c.set_name('node%d-c%d' % (i, j))
            c.set_type(CTYPES[ci])
            aci.add_device(c)
        n.attached_components_info = aci
    return n


def nonempty(attrs):
    return {k: v for k, v in attrs.items() if len(v) > 0}


def pdp_ok(ra):
    req = ra.transform_to_pdp_request(as_json=False)
    seen = {}
    for cat in req["Request"]["Category"]:
        for a in cat["Attribute"]:
            if a["AttributeId"] in seen:
                return False
            if RA.ATTRIBUTE_TYPES_AND_CATEGORIES[a["AttributeId"]][1] != cat["CategoryId"]:
                return False
            if a["DataType"] != RA.ATTRIBUTE_TYPES_AND_CATEGORIES[a["AttributeId"]][0]:
                return False
            seen[a["AttributeId"]] = a["Value"]
    for k, v in ra.attributes.items():
        if k not in seen or seen[k] != v:
            return False
    return len(seen) == len(ra.attributes)


def collect_services(svc_params, order):
    ra = RA()
    for i in order:
        ra._collect_attributes_from_ns_sliver(mk_service(i, *svc_params[i]), IN_SLICE)
    return ra


SITES3 = [None, 'RENC', 'UKY']
PORTS2 = ['p-in-1', 'p-out-1']


def _mk_services_harness(t0, t1):
    def h_services(s0: int, p0: int, bw0: int, c0: bool, s1: int, p1: int, bw1: int, c1: bool,
                   third: bool, s2: int) -> bool:
        """
        pre: 0 <= s0 < 3 and 0 <= s1 < 3 and 1 <= s2 < 3
        pre: 0 <= p0 < 2 and 0 <= p1 < 2 and bw0 >= 0 and bw1 >= 0
        post: R(_)
        """
        # (type, site index into SITES, port index into PORTS, bw, has capacities)
        params = [(t0, s0, p0 * 2, bw0, c0), (t1, s1, p1 * 2, bw1, c1)]
        if third:
            params.append((0, s2, 2, 0, False))
        n = len(params)
        exp_sites, exp_ext = [], {}
        for (ti, si, pi, bw, hc) in params:
            st = STYPES[ti]
            site = SITES[si]
            if site is not None and site not in exp_sites:
                exp_sites.append(site)
            if st in EXT_ATTR:
                exempt = st == ServiceType.PortMirror and PORTS[pi] in IN_SLICE
                if not exempt:
                    lst = exp_ext.setdefault(EXT_ATTR[st], [])
                    sname = site if site is not None else "UNKNOWN-SITE"
                    if sname not in lst:
                        lst.append(sname)
        known = {RA.RESOURCE_SITE, RA.RESOURCE_BW, RA.RESOURCE_TYPE} | set(EXT_ATTR.values())
        first = True
        for order in itertools.permutations(range(n)):
            ra = collect_services(params, order)
            c = nonempty(ra.attributes)
            if sorted(c.get(RA.RESOURCE_SITE, [])) != sorted(exp_sites):
                return False
            # bandwidths are symbolic: compare with the expected list in this collection order (the
            # expected lists of two orders are permutations of each other by construction)
            if list(c.get(RA.RESOURCE_BW, [])) != [params[i][3] for i in order if params[i][4]]:
                return False
            for attr in EXT_ATTR.values():
                if sorted(c.get(attr, [])) != sorted(exp_ext.get(attr, [])):
                    return False
            if c.get(RA.RESOURCE_TYPE) != ["sliver"]:
                return False
            for k in c:
                if k not in known:
                    return False
            if first:
                first = False
                if not pdp_ok(ra):
                    return False
        return True
    return h_services


for _t0 in range(4):
    for _t1 in range(_t0, 4):
        add("services_complete_and_order_independent/%s+%s" % (STYPES[_t0].name, STYPES[_t1].name),
            _mk_services_harness(_t0, _t1), timeout=500, encodes=ENC, finding="mirror",
            bounds="services of types (%s, %s): site in {unset,2 sites}, mirrored port in {in-slice, external}, bandwidth unbounded int, "
                   "capacities present bit, + optional third external PortMirror with symbolic site; every collection order (<= 3!)"
                   % (STYPES[_t0].name, STYPES[_t1].name))


@harness("nodes_complete_and_order_independent", timeout=600, encodes=ENC,
         bounds="node A: type in {VM,Switch}, site in {unset,2 sites}, capacities present bit, cores/ram/disk unbounded ints, 0..2 components "
                "with type in {GPU,SmartNIC,NVME}; node B: site in {unset,2 sites}, cores unbounded; both collection orders; dispatch through collect_resource_attributes")
def h_nodes(ta: int, sa: int, ha: bool, core: int, ram: int, disk: int, nc: int, ca: int, cb: int,
            sb: int, coreb: int) -> bool:
    """
    pre: 0 <= ta < 2 and 0 <= sa < 3 and 0 <= sb < 3 and 0 <= nc <= 2 and 0 <= ca < 3 and 0 <= cb < 3
    pre: core >= 0 and ram >= 0 and disk >= 0 and coreb >= 0
    post: R(_)
    """
    comps = [ca, cb][:nc]
    known = {RA.RESOURCE_SITE, RA.RESOURCE_CPU, RA.RESOURCE_RAM, RA.RESOURCE_DISK, RA.RESOURCE_COMPONENT, RA.RESOURCE_TYPE}
    for order in ((0, 1), (1, 0)):
        ra = RA()
        for i in order:
            node = mk_node(0, ta, sa, core, ram, disk, ha, comps) if i == 0 else mk_node(1, 0, sb, coreb, 8, 10, True, [])
            ra.collect_resource_attributes(source=node)
        c = nonempty(ra.attributes)
        exp_sites = []
        for s in (SITES[sa], SITES[sb]):
            if s is not None and s not in exp_sites:
                exp_sites.append(s)
        if sorted(c.get(RA.RESOURCE_SITE, [])) != sorted(exp_sites):
            return False
        a_cpu, a_ram, a_disk = ([core], [ram], [disk]) if ha else ([], [], [])
        if order == (0, 1):
            exp = (a_cpu + [coreb], a_ram + [8], a_disk + [10])
        else:
            exp = ([coreb] + a_cpu, [8] + a_ram, [10] + a_disk)
        if list(c.get(RA.RESOURCE_CPU, [])) != exp[0] or list(c.get(RA.RESOURCE_RAM, [])) != exp[1]:
            return False
        if list(c.get(RA.RESOURCE_DISK, [])) != exp[2]:
            return False
        if sorted(c.get(RA.RESOURCE_COMPONENT, [])) != sorted(str(CTYPES[x]) for x in comps):
            return False
        if c.get(RA.RESOURCE_TYPE) != (["switch-p4"] if NTYPES[ta] == NodeType.Switch else ["sliver"]):
            return False
        for k in c:
            if k not in known:
                return False
        if order == (0, 1) and not pdp_ok(ra):
            return False
    return True


def _log_case(ta, tb, sa, sb, ha, core, alloc, acore, nc, ca, cb, st, bw, hs, ss, nb=0):
    NT = [NodeType.VM, NodeType.Switch, NodeType.Facility]
    comps = [ca, cb][:nc]
    a = mk_node(0, 0, sa, core, 4, 10, ha, comps)
    a.set_type(NT[ta])
    if alloc:
        a.capacity_allocations = Capacities(core=acore, ram=2, disk=5)
    comps_b = [cb][:nb]          # the second node may carry a component of the same type as the first
    b = mk_node(1, 0, sb, 2, 4, 10, True, comps_b)
    b.set_type(NT[tb])
    svc = mk_service(0, st, ss, 0, bw, hs)
    lc = LogCollector()
    lc.collect_resource_attributes(source=a)
    lc.collect_resource_attributes(source=b)
    lc.collect_resource_attributes(source=svc)
    at = lc.attributes
    vms = (1 if NT[ta] == NodeType.VM else 0) + (1 if NT[tb] == NodeType.VM else 0)
    p4s = (1 if NT[ta] == NodeType.Switch else 0) + (1 if NT[tb] == NodeType.Switch else 0)
    cores = 0
    if NT[ta] == NodeType.VM:
        if alloc:
            cores += acore
        elif ha:
            cores += core
    if NT[tb] == NodeType.VM:
        cores += 2
    if at['vm_count'] != vms or at['p4_count'] != p4s or at['core_count'] != cores:
        return False
    exp_comp = {}
    for x in comps + comps_b:
        exp_comp[str(CTYPES[x])] = exp_comp.get(str(CTYPES[x]), 0) + 1
    if dict(at['components']) != exp_comp:
        return False
    if at['services'] != [(str(STYPES[st]), bw if hs else 0)]:
        return False
    exp_sites = set(s for s in (SITES[sa], SITES[sb], SITES[ss]) if s is not None)
    if set(at['sites']) != exp_sites:
        return False
    exp_fac = set()
    if NT[ta] == NodeType.Facility:
        exp_fac.add('node0')
    if NT[tb] == NodeType.Facility:
        exp_fac.add('node1')
    return set(at["facilities"]) == exp_fac


def _mk_log_harness(ta, tb):
    def h_log(sa: int, ha: bool, core: int, alloc: bool, acore: int, nc: int, ca: int, cb: int,
              st: int, bw: int, hs: bool, ss: int, nb: int) -> bool:
        """
        pre: 0 <= sa < 3 and 0 <= ss < 2 and 0 <= nc <= 2 and 0 <= nb <= 1
        pre: 0 <= ca < 2 and 0 <= cb < 2 and 1 <= st < 3 and core >= 0 and acore >= 0 and bw >= 0
        post: R(_)
        """
        return _log_case(ta, tb, sa, 1, ha, core, alloc, acore, nc, ca, cb, st, bw, hs, ss * 2, nb)
    return h_log


for _ta in range(3):
    for _tb in range(3):
        add("accounting_counts_equal_tally/%d%d" % (_ta, _tb), _mk_log_harness(_ta, _tb), timeout=900, encodes=ENC_LOG,
            bounds="nodes of types (%s,%s): node A site in {unset,2}, capacities bit, capacity-allocations bit, unbounded cores, 0..2 components of 2 types; "
                   "node B fixed site, 0..1 component; 1 service (2 types, bw unbounded, capacities bit, site in {unset, 1}); counts vs direct tally"
                   % (["VM", "Switch", "Facility"][_ta], ["VM", "Switch", "Facility"][_tb]))


# ------------------------------------------------------------------ topology level: the real slice objects, every creation order
from harness.topolib import untraced
from fim.user.topology import ExperimentTopology
from fim.user.node import NodeType as _NT
from fim.user.network_service import ServiceType as _ST, MirrorDirection
from fim.slivers.attached_components import ComponentType as _CT
from fim.slivers.capacities_labels import Labels as _Labels

ENC_T = ENC + ("fim.authz.attribute_collector.ResourceAuthZAttributes._collect_attributes_from_topo",
               "fim.authz.attribute_collector.ResourceAuthZAttributes._collect_attributes_from_node",
               "fim.authz.attribute_collector.ResourceAuthZAttributes._collect_attributes_from_ns",
               "fim.logging.log_collector.LogCollector._collect_attributes_from_topo")
TSITES = ['RENC', 'UKY']


def _build(spec, order):
    """spec: list of services (kind, site index, mirrors in-slice port?) created in `order`; two VMs with a smart NIC each, a facility"""
    t = ExperimentTopology()
    nodes = []
    for i in range(2):
        n = t.add_node(name='n%d' % i, site=TSITES[i], ntype=_NT.VM, capacities=Capacities(core=2 + i, ram=8, disk=10 * (i + 1)))
        n.add_component(name='nic', ctype=_CT.SmartNIC, model='ConnectX-6')
        nodes.append(n)
    t.add_facility(name='fac1', site='RENC', capacities=Capacities(bw=10))
    for j in order:
        kind, si, inslice = spec[j]
        if kind == 'bridge':
            # an in-slice port: n0's first NIC port connected to a bridge; the service-side peer carries the port's local name
            p0 = nodes[0].components['nic'].interface_list[0]
            br = t.add_network_service(name='br', nstype=_ST.L2Bridge, interfaces=[p0])
            br.interface_list[0].labels = _Labels(local_name='in-slice-port')
            continue
        host = nodes[si].components['nic'].interface_list[1] if kind == 'mirror' and j % 2 == 0 else None
        if kind == 'mirror':
            to_if = nodes[si].components['nic'].interface_list[1]
            if to_if.get_peers():
                # the receiving port is taken by an earlier mirror on this node: give the node another NIC
                c = nodes[si].add_component(name='nic-m%d' % j, ctype=_CT.SmartNIC, model='ConnectX-5')
                to_if = c.interface_list[0]
            t.add_port_mirror_service(name='svc%d' % j, from_interface_name='in-slice-port' if inslice else 'external-port-%d' % j,
                                      to_interface=to_if, direction=MirrorDirection.Both, site=TSITES[si])
        elif kind == 'v4ext':
            t.add_network_service(name='svc%d' % j, nstype=_ST.FABNetv4Ext, site=TSITES[si])
        elif kind == 'v6ext':
            t.add_network_service(name='svc%d' % j, nstype=_ST.FABNetv6Ext, site=TSITES[si])
        else:
            t.add_network_service(name='svc%d' % j, nstype=_ST.L2STS, capacities=Capacities(bw=5))
    return t


def _topo_case(kinds, sites, inslice, all_orders=True):
    import itertools as _it
    # the bridge owning the in-slice port is one of the services whose creation order varies
    spec = [('bridge', 0, False)] + list(zip(kinds, sites, inslice))
    exp_ext = {}
    for (kind, si, ins) in spec:
        attr = {'mirror': RA.RESOURCE_MIRROR_SITE, 'v4ext': RA.RESOURCE_FABNETV4_EXT, 'v6ext': RA.RESOURCE_FABNETV6_EXT}.get(kind)
        if attr is None or (kind == 'mirror' and ins):
            continue
        exp_ext.setdefault(attr, set()).add(TSITES[si])
    first = None
    orders = list(_it.permutations(range(len(spec)))) if all_orders else [tuple(range(len(spec))), tuple(reversed(range(len(spec))))]
    for order in orders:
        t = _build(spec, order)
        ra = RA()
        ra.collect_resource_attributes(source=t)
        a = {k: sorted(v, key=str) for k, v in ra.attributes.items() if len(v)}
        for attr in (RA.RESOURCE_MIRROR_SITE, RA.RESOURCE_FABNETV4_EXT, RA.RESOURCE_FABNETV6_EXT):
            if sorted(a.get(attr, [])) != sorted(exp_ext.get(attr, set())):
                return False
        if sorted(a.get(RA.RESOURCE_SITE, [])) != sorted(set(TSITES) | {TSITES[si] for (k_, si, _) in spec if k_ != 'bridge'}):
            return False
        if sorted(a.get(RA.RESOURCE_CPU, [])) != [2, 3] or a.get(RA.RESOURCE_FACILITY_PORT) != ['fac1']:
            return False
        if 'SmartNIC' not in a.get(RA.RESOURCE_COMPONENT, []):
            return False
        lc = LogCollector()
        lc.collect_resource_attributes(source=t)
        la = lc.attributes
        if la['vm_count'] != 2 or la['core_count'] != 5 or set(la['facilities']) != {'fac1'}:
            return False
        tally = {}
        for n_ in t.nodes.values():
            for c_ in n_.components.values():
                tally[str(c_.type)] = tally.get(str(c_.type), 0) + 1
        if dict(la['components']) != tally:
            return False
        if first is None:
            first = a
        elif a != first:
            return False
    return True


def _ck(v, bound):
    v = v % bound
    for k in range(bound):
        if v == k:
            return k
    raise ValueError


def _mk_topo(k0, all_orders):
    def h_topo(k1: int, s0: int, s1: int, s2: int, i0: bool, i1: bool) -> bool:
        """
        pre: 0 <= k1 < 4 and 0 <= s0 < 2 and 0 <= s1 < 2 and 0 <= s2 < 2
        post: R(_)
        """
        begin()
        KINDS = ['mirror', 'v4ext', 'v6ext', 'l2sts']
        k1c = _ck(k1, 4)
        if k1c < k0:
            return True       # unordered pair of kinds: covered by the harness of the smaller kind
        kinds = [KINDS[k0], KINDS[k1c], 'mirror']          # + a third, external mirror service on a symbolic site
        sites = [_ck(s, 2) for s in (s0, s1, s2)]
        ins = [bool(i0) and kinds[0] == 'mirror', bool(i1) and kinds[1] == 'mirror', False]
        return untraced(_topo_case, kinds, sites, ins, all_orders)
    return h_topo


for _k0, _kn in enumerate(['mirror', 'v4ext', 'v6ext', 'l2sts']):
    if _k0 == 0:
        add("topology_level_services_two_creation_orders/" + _kn, _mk_topo(_k0, False), timeout=600, encodes=ENC_T, tiers=("quick",),
            bounds="as topology_level_services_any_creation_order/mirror with the given and the reversed creation order only")
    add("topology_level_services_any_creation_order/" + _kn, _mk_topo(_k0, True), timeout=3600, encodes=ENC_T,
        tiers=("thorough",),
        bounds="real slice built through the topology API (2 VMs with smart NICs on 2 sites, facility, bridge giving an in-slice port) + a %s service, a "
               "second service of symbolic kind in {port mirror, FABNetv4Ext, FABNetv6Ext, L2STS} and a third external port mirror; sites symbolic (2), "
               "mirrors of the in-slice port or of an external one symbolic; every creation order of the four services incl. the bridge that owns the in-slice port (4!); authorization attributes and accounting counts "
               "vs tally; the slice code runs with tracing off once the indices are resolved" % _kn)
