"""C20 (a) - every store operation leaves the store's lock released exactly once on every path.
The real store methods run with `storage.lock` replaced by a counting lock that behaves like
threading.Lock for a single thread (double release raises RuntimeError; re-acquire while held would
block forever and is reported).  Operation sequences have symbolic graph-id indices (duplicates,
delete-then-reimport), symbolic graph variants (valid / a node lacking NodeID / empty) and symbolic
NodeID truthiness."""
from typing import List
import networkx as nx
from vf.prelude import R, begin
from vf.registry import harness, add
from harness.storelib import tok, importer, raw_graph
from fim.graph.abc_property_graph import PropertyGraphImportException

ENC = tuple("fim.graph.networkx_property_graph.NetworkXGraphStorage.__NetworkXGraphStorage." + m for m in
            ("add_graph", "add_graph_direct", "del_graph", "extract_graph", "get_graph", "del_all_graphs", "add_blank_node_to_graph")) + \
      tuple("fim.graph.networkx_property_graph_disjoint.NetworkXGraphStorageDisjoint.__NetworkXGraphStorage." + m for m in
            ("add_graph", "add_graph_direct", "del_graph", "extract_graph", "get_graph", "del_all_graphs", "add_blank_node_to_graph"))
GIDS = ['g1', 'g2']
OPS = ["add_graph", "add_graph_direct", "del_graph", "extract_graph", "get_graph", "del_all_graphs", "add_blank_node_to_graph"]


class WouldBlock(Exception):
    pass


class CountingLock:
    def __init__(self):
        self.held = False
        self.acquired = 0
        self.released = 0

    def acquire(self, *a, **kw):
        if self.held:
            raise WouldBlock("acquire while the lock is already held: a real threading.Lock would block forever")
        self.held = True
        self.acquired += 1
        return True

    def release(self):
        if not self.held:
            raise RuntimeError("release unlocked lock")
        self.held = False
        self.released += 1

    def __enter__(self):
        self.acquire()
        return self

    def __exit__(self, *a):
        self.release()
        return False


def variant(i, nid):
    """0: valid two-node graph; 1: second node's NodeID is the symbolic token (0 -> falsy -> import fails mid-way); 2: empty graph"""
    if i == 2:
        return nx.Graph()
    nodes = [{'NodeID': 'a', 'Class': 'C', 'GraphID': 'gx'}, {'NodeID': nid if i == 1 else 'b', 'Class': 'C', 'GraphID': 'gx'}]
    return raw_graph(nodes, [(0, 1, {'Class': 'r'})], key_base=1)


def apply(st, op, gi, vi, nid):
    try:
        if op == "add_graph":
            st.add_graph(GIDS[gi], variant(vi, nid))
        elif op == "add_graph_direct":
            st.add_graph_direct(GIDS[gi], variant(vi, nid))
        elif op == "del_graph":
            st.del_graph(GIDS[gi])
        elif op == "extract_graph":
            st.extract_graph(GIDS[gi])
        elif op == "get_graph":
            st.get_graph(GIDS[gi])
        elif op == "del_all_graphs":
            st.del_all_graphs()
        elif op == "add_blank_node_to_graph":
            st.add_blank_node_to_graph(GIDS[gi], Class='C', NodeID='x')
    except PropertyGraphImportException:
        pass      # the documented failure of an import; the lock must be free afterwards all the same


def _mk(disjoint, first_ops, depth):
    def h_lock(o: List[int], g: List[int], v: List[int], nid: int) -> bool:
        """
        pre: len(o) == 3 and len(g) == 3 and len(v) == 3 and nid >= 0
        pre: all(0 <= x < 7 for x in o) and all(0 <= x < 2 for x in g) and all(0 <= x < 3 for x in v)
        post: R(_)
        """
        begin()
        imp = importer(disjoint)
        st = imp.storage.storage_instance if hasattr(imp.storage, 'storage_instance') else imp.storage
        lock = CountingLock()
        st.lock = lock
        n = tok(nid) if nid != 0 else 0
        for j in range(depth):
            op = first_ops[o[j] % len(first_ops)] if j == 0 else OPS[o[j]]
            before = lock.released
            apply(st, op, g[j], v[j], n)
            # free on return / raise, one release per acquisition, at most one acquisition per call (get_graph of the shared store takes none)
            if lock.held or lock.acquired != lock.released or lock.released - before > 1:
                return False
        return True
    return h_lock


for _dj in (False, True):
    _name = "disjoint" if _dj else "shared"
    add("%s/lock_balance_depth2" % _name, _mk(_dj, OPS, 2), timeout=900, encodes=ENC,
        bounds="%s store: every sequence of 2 store operations (7 kinds) with symbolic graph id (2, so duplicates and delete-then-reimport occur), "
               "graph variant (valid / node with symbolic possibly-empty NodeID / empty graph)" % _name)
    for _f in OPS:
        add("%s/lock_balance_depth3/%s" % (_name, _f), _mk(_dj, [_f], 3), timeout=1800, tiers=("thorough",), encodes=ENC,
            bounds="%s store: every sequence of 3 store operations starting with %s, arguments as depth2" % (_name, _f))
