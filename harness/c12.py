"""C12 - delegations and pools survive encoding and regrouping unchanged."""
from typing import List
from vf.prelude import R, begin, JSONSHIM
from vf.registry import harness, add
from fim.slivers.delegations import (Delegation, Delegations, DelegationType, DelegationFormat, Pool, Pools,
                                     DelegationException, PoolException)
from fim.slivers.capacities_labels import Capacities, Labels

D = "fim.slivers.delegations."
ENC = (D + "Delegation.set_details", D + "Delegations.add_delegations", D + "Delegations.to_json", D + "Delegations.from_json",
       D + "Delegations.return_delegations_for_id", D + "Delegation.get_details_as_dict")
ENC_P = (D + "Pools.incorporate_delegation", D + "Pools.generate_delegations_by_node_id", D + "Pools.build_index_by_delegation_id",
         D + "Pools.validate_pools", D + "Pool.validate_pool", D + "Pools.get_pool_by_id", D + "Pool.__init__")
IDS = ['del1', 'del2', 'del3']
PNAMES = ['pool1', 'pool2']
FMT = [DelegationFormat.SinglePool, DelegationFormat.PoolDefinition, DelegationFormat.PoolReference]
NODES = ['nodeA', 'nodeB', 'nodeC']


def same_details(a, b):
    if a is None or b is None:
        return a is None and b is None
    if type(a) is not type(b):
        return False
    for k in a.__dict__:
        va, vb = a.__dict__[k], b.__dict__.get(k)
        if (va is None) != (vb is None):
            return False
        if va is not None and va != vb:
            return False
    return True


def same_delegations(x, y):
    if y is None or x.type != y.type or sorted(x.delegations.keys()) != sorted(y.delegations.keys()):
        return False
    for k, dx in x.delegations.items():
        dy = y.delegations[k]
        if dx.get_delegation_id() != dy.get_delegation_id() or dx.get_format() != dy.get_format():
            return False
        if dx.get_format() != DelegationFormat.SinglePool and dx.get_pool_name() != dy.get_pool_name():
            return False
        if dx.get_delegation_type() != dy.get_delegation_type():
            return False
        if not same_details(dx.get_details(), dy.get_details()):
            return False
    return True


def _mk_roundtrip(label, f0):
    atype = DelegationType.LABEL if label else DelegationType.CAPACITY

    def build(n, i, f, c, r, s):
        """returns (container, expected ids added) or (None, None) on a violation"""
        ds = Delegations(atype=atype)
        added = []
        for j in range(n):
            d = Delegation(atype=atype, delegation_id=IDS[i[j]], aformat=FMT[f[j]],
                           pool_id=None if f[j] == 0 else PNAMES[j % 2])
            if f[j] != 2:
                d.set_details(Labels(local_name=s[j], vlan_range=['1-2', '5-7']) if label else Capacities(core=c[j], ram=r[j]))
            before = list(ds.delegations.keys())
            try:
                ds.add_delegations(d)
                if IDS[i[j]] in before:
                    return None, None      # duplicate id accepted: violation
                added.append(IDS[i[j]])
            except DelegationException:
                if IDS[i[j]] not in before or list(ds.delegations.keys()) != before:
                    return None, None      # spurious refusal or partial add
        return ds, added

    def h_rt(n: int, i1: int, i2: int, f1: int, f2: int, c: List[int], r: List[int], s: List[str]) -> bool:
        """
        pre: 1 <= n <= 3 and len(c) == 3 and len(r) == 3 and len(s) == 3
        pre: 0 <= i1 < 2 and 0 <= i2 < 3 and 0 <= f1 < 3 and 0 <= f2 < 3
        pre: all(x > 0 for x in c) and all(x >= 0 for x in r)
        pre: all(len(x) <= 2 for x in s)
        post: R(_)
        """
        begin()
        i = [0, i1, i2]
        ds, added = build(n, i, [f0, f1, f2], c, r, s)
        if ds is None:
            return False
        if sorted(ds.get_delegation_ids()) != sorted(added):
            return False
        t = ds.to_json()
        y = Delegations.from_json(json_str=t, atype=atype)
        if not same_delegations(ds, y):
            return False
        if not JSONSHIM.same_text(t, y.to_json()):
            return False
        # restriction to one id keeps exactly that delegation
        one = ds.return_delegations_for_id(IDS[0])
        if one is None or list(one.delegations.keys()) != [IDS[0]]:
            return False
        if not same_details(one.delegations[IDS[0]].get_details(), ds.delegations[IDS[0]].get_details()):
            return False
        missing = [x for x in IDS if x not in added]
        if missing and ds.return_delegations_for_id(missing[0]) is not None:
            return False
        return Delegations.from_json(json_str='', atype=atype) is None and Delegations.from_json(json_str=None, atype=atype) is None
    return h_rt


for _lab in (False, True):
    for _f0 in range(3):
        add("delegations_roundtrip/%s/%s" % ("label" if _lab else "capacity", FMT[_f0].name), _mk_roundtrip(_lab, _f0), timeout=500, encodes=ENC,
            bounds="1..3 delegations; ids by symbolic index covering every aliasing pattern of 3 ids (duplicates must be refused with nothing added); "
                   "first format %s, others symbolic in {single, definition, reference}; details: %s; the reserved pool name '_' and all-empty details are outside"
                   % (FMT[_f0].name, "free-text label str len<=2 + a fixed vlan_range list" if _lab else "core unbounded int > 0, ram unbounded int >= 0"))


@harness("duplicate_ids_in_one_call", timeout=300, encodes=ENC,
         bounds="2..3 delegations handed to ONE add_delegations call onto a container that may already hold one; ids by symbolic index "
                "(every aliasing pattern); capacity details unbounded ints > 0")
def h_multi(n: int, pre_existing: bool, i0: int, i1: int, i2: int, c: List[int]) -> bool:
    """
    pre: 2 <= n <= 3 and len(c) == 4 and all(x > 0 for x in c)
    pre: 0 <= i0 < 3 and 0 <= i1 < 3 and 0 <= i2 < 3
    post: R(_)
    """
    begin()
    ids = [IDS[i0], IDS[i1], IDS[i2]][:n]
    ds = Delegations(atype=DelegationType.CAPACITY)
    have = []
    if pre_existing:
        d0 = Delegation(atype=DelegationType.CAPACITY, delegation_id=IDS[0])
        d0.set_details(Capacities(core=c[3]))
        ds.add_delegations(d0)
        have = [IDS[0]]
    new = []
    for j, did in enumerate(ids):
        d = Delegation(atype=DelegationType.CAPACITY, delegation_id=did)
        d.set_details(Capacities(core=c[j]))
        new.append(d)
    dup = len(set(ids)) != len(ids) or any(x in have for x in ids)
    try:
        ds.add_delegations(*new)
        raised = False
    except DelegationException:
        raised = True
    if raised != dup:
        return False
    if not raised:
        if sorted(ds.get_delegation_ids()) != sorted(have + ids):
            return False
        for j, did in enumerate(ids):
            if ds.get_by_delegation_id(did) is not new[j]:
                return False
    else:
        # nothing already present was replaced
        if pre_existing and ds.get_by_delegation_id(IDS[0]).get_details().core != c[3]:
            return False
    return True


@harness("ill_typed_rejected", timeout=200, encodes=ENC,
         bounds="delegation type x details type x format x container type (all combinations by symbolic index), details unbounded int / str len<=2")
def h_reject(dt: int, det: int, fmt: int, ct: int, c: int, s: str) -> bool:
    """
    pre: 0 <= dt < 2 and 0 <= det < 2 and 0 <= fmt < 3 and 0 <= ct < 2 and c > 0 and len(s) <= 2
    post: R(_)
    """
    begin()
    T = [DelegationType.CAPACITY, DelegationType.LABEL]
    d = Delegation(atype=T[dt], delegation_id='del1', aformat=FMT[fmt], pool_id=None if fmt == 0 else 'pool1')
    details = Capacities(core=c) if det == 0 else Labels(local_name=s)
    must_reject = (dt != det) or fmt == 2
    try:
        d.set_details(details)
        rejected = False
    except DelegationException:
        rejected = True
    if rejected != must_reject:
        return False
    if rejected and d.get_details() is not None:
        return False
    # container of the other type must not take it
    ds = Delegations(atype=T[ct])
    try:
        ds.add_delegations(d)
        taken = True
    except (DelegationException, AssertionError):
        taken = False
    if taken != (ct == dt):
        return False
    if not taken and len(ds.delegations) != 0:
        return False
    return True


def overlap(k, r0, on1, r1, same_did):
    """two pools under one delegation id that both need an entry on the same node"""
    if k < 2 or not same_did:
        return False
    a = {0} | {[m for m in range(3) if m != 0][b] for b in range(2) if (r0 >> b) & 1}
    b_ = {on1} | {[m for m in range(3) if m != on1][b] for b in range(2) if (r1 >> b) & 1}
    return len(a & b_) > 0


def _mk_pools(label):
    atype = DelegationType.LABEL if label else DelegationType.CAPACITY

    def h_pools(k: int, r0: int, on1: int, r1: int, same_did: bool, c: List[int], s: List[str]) -> bool:
        """
        pre: 1 <= k <= 2 and 1 <= r0 <= 3 and 0 <= on1 < 3 and 1 <= r1 <= 3 and len(c) == 2 and len(s) == 2
        pre: all(x > 0 for x in c) and all(len(x) <= 2 for x in s)
        post: R(_)
        """
        begin()
        # pool1 is defined on node 0 (names are symmetric); its reference nodes are a non-empty subset of the other two;
        # pool2 is defined on any node with a non-empty subset of the remaining two
        on = [0, on1]
        sub = [r0, r1]
        pools = Pools(atype=atype)
        spec = []
        for j in range(k):
            others = [m for m in range(3) if m != on[j]]
            refs = [NODES[others[b]] for b in range(2) if (sub[j] >> b) & 1]
            did = IDS[0] if (j == 0 or same_did) else IDS[1]
            p = Pool(atype=atype, pool_id=PNAMES[j], delegation_id=did, defined_on=NODES[on[j]], defined_for=refs)
            p.set_pool_details(Labels(local_name=s[j]) if label else Capacities(unit=c[j]))
            pools.add_pool(pool=p)
            spec.append((PNAMES[j], NODES[on[j]], refs, did))
        pools.validate_pools()
        pools.build_index_by_delegation_id()
        per_node = pools.generate_delegations_by_node_id()
        # structure: one definition on the defining node, one reference on each node it applies to
        for (pn, o, refs, did) in spec:
            d = per_node[o].get_by_delegation_id(did)
            if d is None or d.get_format() != DelegationFormat.PoolDefinition or d.get_pool_name() != pn:
                return False
            for nd in refs:
                d = per_node[nd].get_by_delegation_id(did)
                if d is None or d.get_format() != DelegationFormat.PoolReference or d.get_pool_name() != pn or d.get_details() is not None:
                    return False
        total = sum(len(v.delegations) for v in per_node.values())
        if total != sum(1 + len(refs) for (_, _, refs, _) in spec):
            return False
        # through text and back, then regroup
        back = Pools(atype=atype)
        for nd in sorted(per_node.keys()):
            ds = Delegations.from_json(json_str=per_node[nd].to_json(), atype=atype)
            back.incorporate_delegation(node_id=nd, deleg=ds)
        back.validate_pools()
        if sorted(back.pool_by_id.keys()) != sorted(pn for (pn, _, _, _) in spec):
            return False
        for (pn, o, refs, did) in spec:
            q = back.get_pool_by_id(pool_id=pn, strict=True)
            orig = pools.get_pool_by_id(pool_id=pn, strict=True)
            if q is None or q.get_defined_on() != o or sorted(q.get_defined_for()) != sorted(refs) or q.get_delegation_id() != did:
                return False
            if q.get_pool_type() != atype or not same_details(q.get_pool_details(), orig.get_pool_details()):
                return False
        return True
    return h_pools


for _lab in (False, True):
    add("pools_regroup/%s" % ("label" if _lab else "capacity"), _mk_pools(_lab), timeout=900, encodes=ENC_P + ENC,
        bounds="1..2 pools over 3 nodes: defining node of the second pool by symbolic index, every non-empty reference-node subset, delegation id shared or distinct, "
               "details %s"
               % ("free-text label str len<=2" if _lab else "unbounded int > 0"))


@harness("incomplete_pool_rejected", timeout=200, encodes=ENC_P,
         bounds="pool lacking each of delegation id / defining node / reference nodes / details (symbolic choice); second definition of a pool")
def h_badpool(miss: int, c: int) -> bool:
    """
    pre: 0 <= miss <= 4 and c > 0
    post: R(_)
    """
    begin()
    p = Pool(atype=DelegationType.CAPACITY, pool_id='pool1', delegation_id=None if miss == 0 else 'del1',
             defined_on=None if miss == 1 else 'nodeA', defined_for=None if miss == 2 else ['nodeB'])
    if miss != 3:
        p.set_pool_details(Capacities(unit=c))
    ps = Pools(atype=DelegationType.CAPACITY)
    ps.add_pool(pool=p)
    try:
        ps.build_index_by_delegation_id()
        ok = True
    except PoolException:
        ok = False
    if ok != (miss == 4):
        return False
    # a pool cannot be defined twice; a container refuses delegations of the other type
    ds = Delegations(atype=DelegationType.CAPACITY)
    d = Delegation(atype=DelegationType.CAPACITY, delegation_id='del1', aformat=DelegationFormat.PoolDefinition, pool_id='pool1')
    d.set_details(Capacities(unit=5))   # concrete: the error message here reprs the delegation (CrossHair formats it untraced)
    ds.add_delegations(d)
    q = Pools(atype=DelegationType.CAPACITY)
    q.incorporate_delegation(node_id='nodeA', deleg=ds)
    try:
        q.incorporate_delegation(node_id='nodeB', deleg=ds)
        return False
    except PoolException:
        pass
    try:
        Pools(atype=DelegationType.LABEL).incorporate_delegation(node_id='nodeA', deleg=ds)
        return False
    except PoolException:
        return True
