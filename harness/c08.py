"""C08 - removal and disconnection delete exactly the owned structure and nothing else."""
from vf.registry import add
from harness.topo_steps import mk, mk2, OPS2_FIRST, OPS2_SECOND, REMOVE_OPS, ENC
S3_QUICK = ('remove_node', 'remove_component', 'remove_child_interface', 'disconnect_interface', 'prune', 'remove_node_service')
for _k, _tiers in (('S4', ("quick", "thorough")), ('S3', ("thorough",)), ('S2', ("thorough",))):
    for _op in REMOVE_OPS:
        # S3 has the sub-interfaces and the single-interface service that the removals of S4 listed as known findings would hide
        _t = ("quick", "thorough") if (_k == 'S3' and _op in S3_QUICK) else _tiers
        if _op == 'prune' and _k in ('S3', 'S4'):
            add("c08/%s/prune_all_subsets" % _k, mk('C08', _k, _op), timeout=2400, tiers=("thorough",), encodes=ENC,
                bounds="skeleton %s, prune() after marking every one of the 1024 subsets of ten elements (nodes, components, services, interfaces)" % _k)
        add("c08/%s/%s" % (_k, _op), mk('C08', _k, _op, small=(_op == 'prune')), timeout=900, tiers=_t, encodes=ENC,
            bounds="skeleton %s, one %s with symbolic arguments; post-snapshot == pre-snapshot minus the ownership closure of the addressed element "
                   "(owned sub-tree, its 2-ended links and the service-side ports peering with it); handle interface list == fresh lookup" % (_k, _op))


# thorough: every ordered pair of steps (reduced argument pools) from skeleton S3
for _o1 in OPS2_FIRST:
    for _o2 in OPS2_SECOND:
        if 'C08' == 'C08' and not (_o2.startswith('remove') or _o2.startswith('disconnect')):
            continue
        add("c08/S3/two_steps/%s+%s" % (_o1, _o2), mk2('C08', 'S3', _o1, _o2), timeout=900, tiers=("thorough",), encodes=ENC,
            bounds="skeleton S3, two consecutive operations (%s then %s) with independent symbolic arguments from reduced pools; the property is "
                   "checked after each step" % (_o1, _o2))
