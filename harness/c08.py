"""C08 - removal and disconnection delete exactly the owned structure and nothing else."""
from vf.registry import add
from harness.topo_steps import mk, REMOVE_OPS, ENC
for _k, _tiers in (('S4', ("quick", "thorough")), ('S3', ("thorough",)), ('S2', ("thorough",))):
    for _op in REMOVE_OPS:
        add("c08/%s/%s" % (_k, _op), mk('C08', _k, _op), timeout=900, tiers=_tiers, encodes=ENC,
            bounds="skeleton %s, one %s with symbolic arguments; post-snapshot == pre-snapshot minus the ownership closure of the addressed element "
                   "(owned sub-tree, its 2-ended links and the service-side ports peering with it); handle interface list == fresh lookup" % (_k, _op))
