"""C07 - every model the topology API builds satisfies the published graph rules and containment structure; views are exact and read-only."""
from vf.registry import add
from harness.topo_steps import mk, ALL_OPS, ENC
for _k, _tiers in (('S4', ("quick", "thorough")), ('S3', ("thorough",)), ('S1', ("thorough",)), ('S0', ("thorough",))):
    for _op in ALL_OPS:
        if _k == 'S4' and _op == 'add_network_service':
            add("c07/S4/add_network_service_two_interfaces", mk('C07', _k, _op), timeout=1500, tiers=("thorough",), encodes=ENC,
                bounds="skeleton S4, new service with 0..2 interfaces from 5 representative ones at symbolic positions")
        add("c07/%s/%s" % (_k, _op), mk('C07', _k, _op, small=(_k == 'S4')), timeout=900, tiers=_tiers, encodes=ENC,
            bounds="skeleton %s, one %s with symbolic arguments (names/sites/types/interfaces by symbolic index incl. unused and duplicate ones, "
                   "unbounded int capacities, unbounded symbolic model string); 13 structural rules + containment + name uniqueness + views" % (_k, _op))
