"""C07 - every model the topology API builds satisfies the published graph rules and containment structure; views are exact and read-only."""
from vf.registry import add
from harness.topo_steps import mk, mk2, OPS2_FIRST, OPS2_SECOND, ALL_OPS, ENC
S3_QUICK = ('remove_node', 'remove_component', 'remove_child_interface', 'prune')
for _k, _tiers in (('S4', ("quick", "thorough")), ('S3', ("thorough",)), ('S1', ("thorough",)), ('S0', ("thorough",))):
    for _op in ALL_OPS:
        if _k == 'S4' and _op == 'add_link':
            add("c07/S4/add_link_three_interfaces", mk('C07', _k, _op), timeout=3000, tiers=("thorough",), encodes=ENC,
                bounds="skeleton S4, new link with 2..3 ends from 7 representative arguments (incl. a stale handle and a non-interface) at symbolic positions")
        if _k == 'S4' and _op == 'add_network_service':
            add("c07/S4/add_network_service_two_interfaces", mk('C07', _k, _op), timeout=1500, tiers=("thorough",), encodes=ENC,
                bounds="skeleton S4, new service with 0..2 interfaces from 5 representative ones at symbolic positions")
        _t = ("quick", "thorough") if (_k == 'S3' and _op in S3_QUICK) else _tiers
        if _op == 'prune' and _k in ('S3', 'S4'):
            add("c07/%s/prune_all_subsets" % _k, mk('C07', _k, _op), timeout=2400, tiers=("thorough",), encodes=ENC,
                bounds="skeleton %s, prune() after marking every one of the 1024 subsets of ten elements (nodes, components, services, interfaces)" % _k)
        add("c07/%s/%s" % (_k, _op), mk('C07', _k, _op, small=(_k == 'S4' or _op == 'prune')), timeout=900, tiers=_t, encodes=ENC,
            bounds="skeleton %s, one %s with symbolic arguments (names/sites/types/interfaces by symbolic index incl. unused and duplicate ones, "
                   "unbounded int capacities, unbounded symbolic model string); 13 structural rules + containment + name uniqueness + views" % (_k, _op))


# thorough: every ordered pair of steps (reduced argument pools) from skeleton S3
for _o1 in OPS2_FIRST:
    for _o2 in OPS2_SECOND:
        if 'C07' == 'C08' and not (_o2.startswith('remove') or _o2.startswith('disconnect')):
            continue
        add("c07/S3/two_steps/%s+%s" % (_o1, _o2), mk2('C07', 'S3', _o1, _o2), timeout=900, tiers=("thorough",), encodes=ENC,
            bounds="skeleton S3, two consecutive operations (%s then %s) with independent symbolic arguments from reduced pools; the property is "
                   "checked after each step" % (_o1, _o2))
