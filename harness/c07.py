"""C07 - every model the topology API builds satisfies the published graph rules and containment structure; views are exact and read-only."""
from vf.registry import add
from harness.topo_steps import mk, ALL_OPS, ENC
for _k, _tiers in (('S3', ("quick", "thorough")), ('S1', ("thorough",)), ('S0', ("thorough",))):
    for _op in ALL_OPS:
        add("c07/%s/%s" % (_k, _op), mk('C07', _k, _op), timeout=900, tiers=_tiers, encodes=ENC,
            bounds="skeleton %s, one %s with symbolic arguments (names/sites/types/interfaces by symbolic index incl. unused and duplicate ones, "
                   "unbounded int capacities, unbounded symbolic model string); 13 structural rules + containment + name uniqueness + views" % (_k, _op))
