"""C14 - combined broker model: merge is order independent and unmerge is its inverse.
merge_adm / unmerge_adm / _update_node_delegations exist only on the Neo4j CBM class; the harness builds a
hybrid class over the in-memory shared store whose three methods ARE the function objects of Neo4jCBMGraph
(the module-level name Neo4jADMGraph is bound to NetworkXADMGraph), so every statement executed is the
repository's; APOC's mergeNodes is replaced by the NetworkX merge_nodes, which is the backend the property names.
Families of 2-3 delegation models are generated from symbolic choices: which node of which model is the same
node (node id by symbolic index into a shared pool), which side carries the delegation on a shared node."""
import json
import itertools
from typing import List
import networkx as nx
from vf.prelude import R, begin
from vf.registry import harness, add
from harness.topolib import untraced
import fim.graph.resources.neo4j_cbm as _cbm_mod
from fim.graph.resources.neo4j_cbm import Neo4jCBMGraph
from fim.graph.resources.abc_cbm import ABCCBMPropertyGraph
from fim.graph.resources.networkx_adm import NetworkXADMGraph
from fim.graph.networkx_property_graph import NetworkXPropertyGraph, NetworkXGraphImporter
from fim.graph.abc_property_graph import ABCPropertyGraph, PropertyGraphQueryException

_cbm_mod.Neo4jADMGraph = NetworkXADMGraph


class NxCBM(NetworkXPropertyGraph, ABCCBMPropertyGraph):
    BQM_MERGED_FIELDS = Neo4jCBMGraph.BQM_MERGED_FIELDS
    DELEGATION_TYPE_TO_PROP_NAME = Neo4jCBMGraph.DELEGATION_TYPE_TO_PROP_NAME
    merge_adm = Neo4jCBMGraph.merge_adm
    unmerge_adm = Neo4jCBMGraph.unmerge_adm
    _update_node_delegations = Neo4jCBMGraph._update_node_delegations

    def __init__(self, *, graph_id, importer, logger=None):
        NetworkXPropertyGraph.__init__(self, graph_id=graph_id, importer=importer, logger=logger)



def _not_here(self, *a, **kw):
    raise NotImplementedError("query operation of the Neo4j CBM, not part of merge/unmerge")


for _n in list(getattr(NxCBM, '__abstractmethods__', ())):
    setattr(NxCBM, _n, _not_here)
NxCBM.__abstractmethods__ = frozenset()


ENC = ("fim.graph.resources.neo4j_cbm.Neo4jCBMGraph.merge_adm", "fim.graph.resources.neo4j_cbm.Neo4jCBMGraph.unmerge_adm",
       "fim.graph.resources.neo4j_cbm.Neo4jCBMGraph._update_node_delegations", "fim.graph.resources.abc_cbm.ABCCBMPropertyGraph.snapshot",
       "fim.graph.resources.abc_cbm.ABCCBMPropertyGraph.rollback", "fim.graph.resources.abc_adm.ABCADMPropertyGraph.rewrite_delegations",
       "fim.graph.networkx_property_graph.NetworkXPropertyGraph.merge_nodes", "fim.graph.networkx_property_graph.NetworkXPropertyGraph.find_matching_nodes",
       "fim.graph.networkx_property_graph.NetworkXPropertyGraph.update_nodes_property", "fim.graph.networkx_property_graph.NetworkXPropertyGraph.clone_graph")
POOL = ['x0', 'x1', 'x2', 'x3', 'x4', 'x5']
LD, CD, SI = ABCPropertyGraph.PROP_LABEL_DELEGATIONS, ABCPropertyGraph.PROP_CAPACITY_DELEGATIONS, ABCPropertyGraph.PROP_STRUCTURAL_INFO
ADM_IDS = ['adm-A', 'adm-B', 'adm-C']


def adm_graph(i, ids, deleg_on, kind=0):
    """a 3-node delegation model: node0 -has- node1 -connects- node2; node k carries a delegation iff deleg_on[k]"""
    g = nx.Graph()
    classes = [('NetworkNode', 'Server'), ('NetworkService', 'MPLS'), ('ConnectionPoint', 'TrunkPort')]
    for k in range(3):
        # the non-delegation properties of a node are a function of its id: a shared node looks the same in every model
        ck = int(ids[k][-1]) % 3
        p = {'NodeID': ids[k], 'Class': classes[ck][0], 'Type': classes[ck][1], 'Name': 'n-' + ids[k], 'StitchNode': 'true' if ids[k][0] == 'x' else 'false',
             'Capacities': json.dumps({'unit': 1})}
        # kind: 0 = the model delegates labels and capacities, 1 = labels only, 2 = capacities only
        if deleg_on[k] and kind in (0, 1):
            p[LD] = json.dumps({'primary': {'pool_id': '_', 'labels': {'vlan_range': '%d00-%d99' % (i + 1, i + 1)}}})
        if deleg_on[k] and kind in (0, 2):
            p[CD] = json.dumps({'primary': {'pool_id': '_', 'capacities': {'unit': i + 1}}})
        g.add_node(k + 1, **p)
    g.add_edge(1, 2, Class='has')
    g.add_edge(2, 3, Class='connects')
    return g


def canon(imp, gid):
    """canonical snapshot: node id -> properties with adm_graph_ids as a sorted list and empty delegation properties dropped; edges"""
    g = imp.storage.extract_graph(gid)
    if g is None:
        return {}, []
    nodes = {}
    for n in g.nodes:
        p = dict(g.nodes[n])
        p.pop('GraphID', None)
        for dp in (LD, CD):
            if dp in p and (p[dp] is None or p[dp] == '' or p[dp] == 'None'):
                p.pop(dp)
            elif dp in p:
                p[dp] = json.loads(p[dp])
        if SI in p and p[SI]:
            si = json.loads(p[SI])
            if isinstance(si.get('adm_graph_ids'), list):
                si['adm_graph_ids'] = sorted(si['adm_graph_ids'])
            p[SI] = si
        nodes[p['NodeID']] = p
    edges = sorted((min(g.nodes[a]['NodeID'], g.nodes[b]['NodeID']), max(g.nodes[a]['NodeID'], g.nodes[b]['NodeID']), g.edges[(a, b)].get('Class'))
                   for a, b in g.edges)
    return nodes, edges


def kind_of(i, dk):
    """delegation kind of model i: the family mixes the kinds, rotated by the symbolic dk"""
    return (dk + i) % 3


def scenario(nadm, ids, deleg, dk=0):
    """build a store with the ADMs; returns (importer, [adm graphs])"""
    from fim.graph.networkx_property_graph import NetworkXGraphStorage
    NetworkXGraphStorage.storage_instance = None      # a fresh shared store per scenario (the store is a process-wide singleton)
    imp = NetworkXGraphImporter()
    adms = []
    for i in range(nadm):
        imp.storage.add_graph(ADM_IDS[i], adm_graph(i, ids[i], deleg[i], kind_of(i, dk)))
        adms.append(NetworkXADMGraph(graph_id=ADM_IDS[i], importer=imp))
    return imp, adms


def expected_union(nadm, ids, deleg, dk=0):
    nodes, edges = {}, set()
    for i in range(nadm):
        for k in range(3):
            nid = ids[i][k]
            e = nodes.setdefault(nid, {'contributors': [], 'deleg': None, 'kind': 0})
            e['contributors'].append(ADM_IDS[i])
            if deleg[i][k]:
                e['deleg'] = ADM_IDS[i]
                e['kind'] = kind_of(i, dk)
        edges.add((min(ids[i][0], ids[i][1]), max(ids[i][0], ids[i][1]), 'has'))
        edges.add((min(ids[i][1], ids[i][2]), max(ids[i][1], ids[i][2]), 'connects'))
    return nodes, sorted(edges)


def check(nadm, ids, deleg, dk=0):
    problems = []
    exp_nodes, exp_edges = expected_union(nadm, ids, deleg, dk)
    results = []
    for order in itertools.permutations(range(nadm)):
        imp, adms = scenario(nadm, ids, deleg, dk)
        src_before = [canon(imp, a.graph_id) for a in adms]
        cbm = NxCBM(graph_id='cbm', importer=imp)
        prev = None
        for step, i in enumerate(order):
            prev = canon(imp, 'cbm')
            if step == nadm - 1:
                sid = cbm.snapshot()
                snap_before = canon(imp, 'cbm')
            cbm.merge_adm(adm=adms[i])
        got = canon(imp, 'cbm')
        results.append(got)
        if [canon(imp, a.graph_id) for a in adms] != src_before:
            problems.append("merge altered a source model (order %s)" % (order,))
        gn, ge = got
        if sorted(gn.keys()) != sorted(exp_nodes.keys()):
            problems.append("combined model has nodes %s, expected %s (order %s)" % (sorted(gn), sorted(exp_nodes), order))
            continue
        if ge != exp_edges:
            problems.append("combined model edges differ from the union (order %s)" % (order,))
        for nid, e in exp_nodes.items():
            si = gn[nid].get(SI) or {}
            if sorted(si.get('adm_graph_ids') or []) != sorted(e['contributors']):
                problems.append("node %s records contributors %s, expected %s (order %s)" % (nid, si.get('adm_graph_ids'), e['contributors'], order))
            for dp in (LD, CD):
                d = gn[nid].get(dp)
                if e['deleg'] is None or (dp == LD and e['kind'] == 2) or (dp == CD and e['kind'] == 1):
                    if d:
                        problems.append("node %s carries an unexpected delegation %s" % (nid, d))
                elif not d or list(d.keys()) != [e['deleg']]:
                    problems.append("node %s delegations keyed by %s, expected [%s] (order %s)" % (nid, list(d.keys()) if d else None, e['deleg'], order))
        # unmerge of the last merged model restores the previous combined model
        last = order[-1]
        cbm.unmerge_adm(graph_id=ADM_IDS[last])
        if canon(imp, 'cbm') != prev:
            problems.append("merge then unmerge of %s does not restore the previous combined model (order %s)" % (ADM_IDS[last], order))
        # rolling back to the snapshot taken before the last merge restores it as well
        cbm.merge_adm(adm=adms[last])
        cbm.rollback(graph_id=sid)
        if canon(imp, 'cbm') != snap_before:
            problems.append("rollback to the snapshot does not restore the combined model (order %s)" % (order,))
    for r in results[1:]:
        if r != results[0]:
            problems.append("combined model depends on merge order")
            break
    return problems


def _c(v, bound):
    v = v % bound
    for k in range(bound):
        if v == k:
            return k
    raise ValueError


def layout(nadm, s1, s2, t1, t2, side1, side2, d0, d1):
    """ADM A owns x0,x1,x2.  B's third / first node is A's node s1 / s2 (0..2) or its own (3); C's third node is A's node t1 or its
    own, C's first node is B's node t2 or its own.  On a shared node only one side carries the delegation."""
    ids = [['x0', 'x1', 'x2'], ['y0', 'y1', 'y2'], ['z0', 'z1', 'z2']]
    deleg = [[d0, False, d1], [d1, False, False], [False, False, d0]]
    if s1 < 3:
        ids[1][2] = ids[0][s1]
        deleg[1][2] = side1 and not deleg[0][s1]
    if s2 < 3 and s2 != s1:
        ids[1][0] = ids[0][s2]
        deleg[1][0] = deleg[1][0] and not deleg[0][s2]
    if nadm == 3:
        if t1 < 3:
            ids[2][2] = ids[0][t1]
            deleg[2][2] = side2 and not deleg[0][t1] and not (ids[1][2] == ids[0][t1] and deleg[1][2]) and not (ids[1][0] == ids[0][t1] and deleg[1][0])
        if t2 < 3:
            cand = ids[1][t2]
            if cand not in ids[2]:
                ids[2][0] = cand
                owners = [(0, k) for k in range(3) if ids[0][k] == cand] + [(1, k) for k in range(3) if ids[1][k] == cand]
                deleg[2][0] = deleg[2][0] and not any(deleg[i][k] for (i, k) in owners)
    return ids, deleg


def shares_two(nadm, s1, s2, t1, t2):
    """some model has two or more nodes in common with the rest of the family (so that it may contribute a connection between
    two nodes that other models contribute too)"""
    ids, _ = layout(nadm, s1 % 4, s2 % 4, t1 % 4, t2 % 4, False, False, False, False)
    for i in range(nadm):
        others = set()
        for j in range(nadm):
            if j != i:
                others |= set(ids[j])
        if len(set(ids[i]) & others) >= 2:
            return True
    return False


def _mk(nadm):
    def h_cbm(s1: int, s2: int, t1: int, t2: int, side1: bool, side2: bool, d0: bool, d1: bool, dk: int = 0) -> bool:
        """
        pre: 0 <= s1 < 4 and 0 <= s2 < 4 and 0 <= t1 < 4 and 0 <= t2 < 4 and 0 <= dk < 3
        post: R(_)
        """
        begin()
        s1, s2, dk = _c(s1, 4), _c(s2, 4), _c(dk, 3)
        if nadm == 3:
            t1, t2 = _c(t1, 4), _c(t2, 4)
        else:
            t1, t2, side2 = 0, 0, False      # the third model's parameters are not looked at
        ids, deleg = layout(nadm, s1, s2, t1, t2, bool(side1), bool(side2), bool(d0), bool(d1))
        for i in range(nadm):
            if len(set(ids[i])) != 3:
                return True      # node ids are distinct within one model
        return untraced(check, nadm, ids, deleg, dk) == []
    return h_cbm


add("merge_unmerge/2_models", _mk(2), timeout=1200, encodes=ENC,
    bounds="2 delegation models of 3 nodes; which nodes of B are nodes of A (symbolic indices: every stitching pattern incl. none and two shared "
           "nodes), which side carries the delegation on a shared node (symbolic), delegation presence bits, which kinds each model delegates (labels+capacities / labels only / capacities only, rotated); both merge orders; unmerge and "
           "snapshot/rollback of the last merge")
add("merge_unmerge/3_models", _mk(3), timeout=5400, encodes=ENC, tiers=("thorough",),
    bounds="3 delegation models of 3 nodes, C sharing nodes with A and/or B (symbolic), all 6 merge orders; unmerge and snapshot/rollback of the last merge")
