ENC = ("fim.user.topology.Topology.add_node", "fim.user.topology.Topology.remove_node", "fim.user.topology.Topology.add_facility",
       "fim.user.topology.Topology.add_switch", "fim.user.topology.Topology.add_network_service", "fim.user.topology.Topology.remove_network_service",
       "fim.user.node.Node.add_component", "fim.user.node.Node.remove_component", "fim.user.node.Node.add_storage",
       "fim.user.network_service.NetworkService.__init__", "fim.user.network_service.NetworkService.connect_interface",
       "fim.user.network_service.NetworkService.disconnect_interface", "fim.user.interface.Interface.add_child_interface",
       "fim.user.interface.Interface.remove_child_interface", "fim.user.topology.ExperimentTopology.add_port_mirror_service",
       "fim.user.model_element.ModelElement.rename", "fim.view_only_dict.ViewOnlyDict",
       "fim.graph.abc_property_graph.ABCPropertyGraph.remove_network_node_with_components_nss_cps_and_links",
       "fim.graph.abc_property_graph.ABCPropertyGraph.remove_component_with_nss_cps_and_links",
       "fim.graph.abc_property_graph.ABCPropertyGraph.remove_ns_with_cps_and_links", "fim.graph.abc_property_graph.ABCPropertyGraph.remove_cp_and_links")
"""One topology-API step with symbolic arguments from an enumerated skeleton slice; used by the C07 / C08 / C09
harness modules.  The skeleton is built concretely (tracing off) at the start of every path, the STEP runs under
symbolic execution, the oracles (snapshots, published rules, ownership closure) run on the resulting concrete graph."""
from typing import List
from vf.prelude import R, begin
from harness.topolib import (skeleton, snap, same_snap, invariant_problems, views_problems, owned_closure, links_of,
                             neighbours, expected_after_removal, untraced, SITES)
from fim.user.topology import ExperimentTopology, TopologyException
from fim.user.node import NodeType
from fim.user.interface import InterfaceType
from fim.user.link import LinkType
from fim.user.network_service import ServiceType, MirrorDirection
from fim.slivers.attached_components import ComponentType
from fim.slivers.capacities_labels import Capacities, Labels, ReservationInfo

NODE_NAMES = ['n1', 'n2', 'n3', 'n9', 'fac1', 'sw1']
NN = len(NODE_NAMES)
COMP_NAMES = ['nic1', 'nic2', 'gpu1', 'cx9', 'nic3', 'fpga1']
CNODES = ['n1', 'n2', 'n3']
SVC_NAMES = ['sts1', 'ptp1', 'br1', 'sv9', 'fab1', 'fab2']
NTYPES = [NodeType.VM, NodeType.Server, NodeType.Switch]
CTYPES = [ComponentType.GPU, ComponentType.SmartNIC, ComponentType.SharedNIC, ComponentType.NVME, ComponentType.FPGA]
STYPES = [ServiceType.L2Bridge, ServiceType.L2PTP, ServiceType.L2STS, ServiceType.FABNetv4, ServiceType.L3VPN]
VLANS = ['100', '300', '5000', '']
LTYPES = [LinkType.L2Path, LinkType.Patch]


def _elements(t):
    """one representative element of every kind (present in skeletons S3 and S4; the last three only in S4)"""
    pool = list(t.interface_list)
    p2 = pool[2]
    subs = list(p2.interface_list)
    out = [t.nodes['n1'], t.nodes['n1'].components['nic2'], t.network_services['br1'], pool[2], pool[0], subs[0], t.facilities['fac1']]
    out += [t.links['lan3'] if 'lan3' in t.links else t.nodes['n2'], t.nodes['sw1'] if 'sw1' in t.nodes else t.nodes['n3']]
    return out


# several properties in one call, the bad one first / last / among good ones, None values
PROP_COMBOS = [lambda: dict(labels=None, capacities='x'), lambda: dict(capacities='x', labels=None),
               lambda: dict(labels=Labels(vlan='7'), capacities='x'), lambda: dict(capacities=Capacities(bw=1), bogus=1),
               lambda: dict(bogus=1, capacities=Capacities(bw=1)), lambda: dict(labels=Labels(vlan='7'), capacities=Capacities(bw=1)),
               lambda: dict(labels=None), lambda: dict(name='zz', capacities='x'), lambda: dict(capacities=Capacities(bw=3), site=5)]


NI = 11     # size of the interface pool: the first 9 node interfaces of the skeleton + the facility interface + a stale handle
NSV = 7     # SVC_NAMES + a stale service handle


def prune_pool(t):
    """ten elements of every kind for prune(): nodes, components (with connected / free / multi-ended-link ports), services, node interfaces.
    In S4 the elements whose removal is a LISTED finding (owner of the connected sub-interface, peered services) are not in the pool."""
    pool = list(t.interface_list)
    if 'sw1' in t.nodes:     # S4
        return [t.nodes['n3'], t.nodes['n2'], t.nodes['n3'].components['fpga1'], t.nodes['n1'].components['gpu1'], t.nodes['n2'].components['nic3'],
                t.network_services['sts1'], t.network_services['br1'], pool[0], pool[6], pool[8]]
    return [t.nodes['n1'], t.nodes['n3'], t.nodes['n1'].components['nic2'], t.nodes['n1'].components['gpu1'], t.nodes['n2'].components['nic3'],
            t.network_services['sts1'], t.network_services['ptp1'], pool[0], pool[4], pool[5]]


def node_ifaces(t):
    """pool of node interfaces in a fixed order (connected and unconnected ones), and last a STALE handle: an interface
    whose component was removed from the model earlier"""
    pool = list(t.interface_list)[:NI - 2]
    facs = t.facilities
    if facs and 'fac1' in facs:
        pool += list(facs['fac1'].interface_list)[:1]
    stale = getattr(t, 'stale_iface', None)
    return pool + ([stale] if stale is not None else [])


def rep_ifaces(t):
    """representative arguments for an interface list: shared connected / dedicated connected / dedicated with sub-interfaces /
    dedicated (free in S3, on a 3-ended link in S4) / the last real one / the stale handle / an object that is not an interface"""
    pool = node_ifaces(t)
    if not pool:
        return []
    real = [i for i in pool if i is not getattr(t, 'stale_iface', None)]
    return [real[k % len(real)] for k in (0, 1, 2, 5, len(real) - 1)] + [pool[-1], 'not-an-interface']


def service(t, k):
    """service handle by pool index; the last index is a STALE handle (service removed from the model earlier)"""
    if k % NSV == NSV - 1:
        st = getattr(t, 'stale_svc', None)
        if st is None:
            raise KeyError('no stale service in this skeleton')
        return st
    return t.network_services[SVC_NAMES[k % NSV]]


class Step:
    """result of one step: whether it raised, the handle used and what it should report"""
    def __init__(self):
        self.raised = None
        self.gone_root = None       # node id of the element a removal addressed
        self.gone_roots = None      # node ids of all elements a prune addressed
        self.disconnect = None      # node id of a node interface that was disconnected
        self.handle = None
        self.handle_fresh = None
        self.unpeer = None


SYMBOLIC_OPS = ('add_node', 'add_component', 'add_component_known_model', 'add_facility', 'set_node_property')


# which symbolic indices an operation looks at, with their ranges (a, b, c, number of interface picks)
USES = {
    'add_node': (6, 3, 3, 0), 'remove_node': (6, 0, 0, 0), 'add_component': (2, 4, 5, 0), 'add_component_known_model': (2, 4, 6, 0),
    'remove_component': (2, 4, 0, 0), 'add_network_service': (4, 5, 3, 2), 'remove_network_service': (4, 0, 0, 0),
    'connect_interface': (3, 6, 0, 0), 'disconnect_interface': (3, 6, 0, 0), 'add_facility': (6, 3, 0, 0), 'remove_facility': (6, 0, 0, 0),
    'add_switch': (6, 3, 3, 0), 'add_child_interface': (6, 2, 4, 0), 'remove_child_interface': (6, 2, 0, 0), 'add_storage': (2, 4, 0, 0),
    'add_port_mirror_service': (4, NI, 3, 0), 'rename_node': (2, 6, 0, 0), 'set_node_property': (2, 3, 3, 0),
    'peer': (NSV, NSV, 0, 0), 'unpeer': (NSV, NSV, 0, 0), 'remove_link': (3, 0, 0, 0),
    'prune': (4, 4, 4, 2), 'remove_node_service': (3, 3, 0, 0), 'set_properties': (9, 9, 0, 0), 'unset_property': (9, 6, 0, 0),
    'add_link': (2, 2, 2, 3), 'remove_switch': (6, 0, 0, 0), 'remove_storage': (3, 3, 0, 0),
}
USES.update({'add_component': (3, 6, 5, 0), 'add_component_known_model': (2, 3, 6, 1), 'remove_component': (3, 6, 0, 0),
             'add_network_service': (3, 5, 3, 2), 'remove_network_service': (6, 0, 0, 0), 'connect_interface': (3, NI, 0, 0),
             'disconnect_interface': (3, NI, 0, 0), 'add_child_interface': (NI, 2, 4, 0), 'remove_child_interface': (NI, 2, 0, 0),
             'add_facility': (6, 3, 5, 0), 'add_switch': (6, 3, 6, 0)})
MODEL_POOL = ['ConnectX-6', 'nope', 'RTX6000', 'P4510', 'ConnectX-5']


def do_step(t, op, a, b, c, n, m, picks, symbolic_values, uses=None):
    """apply one operation; a, b, c: symbolic indices, n: unbounded symbolic int, m: symbolic str, picks: symbolic interface indices.
    With symbolic_values (C09) an operation that takes a capacity / model string runs fully traced with those values symbolic.
    Otherwise the indices the operation uses are resolved to concrete values (each a solver-decided fork, only the ones the
    operation looks at) and the operation then runs with tracing off: the solver still enumerates every index combination."""
    if symbolic_values and op in SYMBOLIC_OPS:
        return _do_step(t, op, a, b, c, n, m, picks)
    ua, ub, uc, up = (uses or USES)[op]
    a = _concretize(a, ua) if ua else 0
    b = _concretize(b, ub) if ub else 0
    c = _concretize(c, uc) if uc else 0
    npick = (c % 4) if op == 'add_network_service' else (2 + c % 2 if op == 'add_link' else up)
    pb = {'add_network_service': 7, 'add_link': 7, 'prune': 4, 'add_component_known_model': 3}.get(op, 9)
    picks = [_concretize(picks[i], pb) if i < npick else 0 for i in range(len(picks))]
    return untraced(_do_step, t, op, a, b, c, 2, MODEL_POOL[c % 5] if op == 'add_component' else 'x', picks)


def _concretize(v, bound):
    v = v % bound
    for k in range(bound):
        if v == k:
            return k
    raise ValueError("index out of range")


def _do_step(t, op, a, b, c, n, m, picks):
    st = Step()
    try:
        if op == 'add_node':
            t.add_node(name=NODE_NAMES[a % NN], site=SITES[b % 3], ntype=NTYPES[c % 3], capacities=Capacities(core=n, ram=n))
        elif op == 'remove_node':
            nm = NODE_NAMES[a % NN]
            if nm in t.nodes:
                st.gone_root = t.nodes[nm].node_id
            t.remove_node(nm)
        elif op == 'add_component':
            node = t.nodes[CNODES[a % 3]]
            node.add_component(name=COMP_NAMES[b % 6], ctype=CTYPES[c % 5], model=m)
        elif op == 'add_component_known_model':
            node = t.nodes[['n1', 'n3'][a % 2]]
            ct, md = [(ComponentType.GPU, 'RTX6000'), (ComponentType.SmartNIC, 'ConnectX-6'), (ComponentType.SharedNIC, 'ConnectX-6'),
                      (ComponentType.NVME, 'P4510'), (ComponentType.FPGA, 'Xilinx-U280'), (ComponentType.GPU, 'ConnectX-6')][c % 6]
            kw = [{}, {'bogus_property': 1}, {'labels': 'not-a-labels-object'}][picks[0] % 3]      # a bad property among good ones
            node.add_component(name=['nic1', 'cx9', 'fpga1'][b % 3], ctype=ct, model=md, capacities=Capacities(unit=n), **kw)
        elif op == 'remove_component':
            node = t.nodes[CNODES[a % 3]]
            cn = COMP_NAMES[b % 6]
            if cn in node.components:
                st.gone_root = node.components[cn].node_id
            node.remove_component(cn)
        elif op == 'add_network_service':
            rep = rep_ifaces(t)
            ifs = [rep[p % 7] for p in picks[:(c % 4)]] if rep else []
            t.add_network_service(name=['sts1', 'sv9', 'fab1'][a % 3], nstype=STYPES[b % 5], interfaces=ifs, capacities=Capacities(bw=10))
        elif op == 'remove_network_service':
            nm = SVC_NAMES[a % 6]
            if nm in t.network_services:
                st.gone_root = t.network_services[nm].node_id
            t.remove_network_service(nm)
        elif op == 'connect_interface':
            svc = t.network_services[SVC_NAMES[a % 3]]
            pool = node_ifaces(t)
            svc.connect_interface(pool[b % len(pool)])
            st.handle, st.handle_fresh = svc, ('svc', svc.name)
        elif op == 'disconnect_interface':
            svc = t.network_services[SVC_NAMES[a % 3]]
            pool = node_ifaces(t)
            i = pool[b % len(pool)]
            peers = i.get_peers()
            if peers and len(peers) == 1:
                # the peering artefacts of THIS interface go, whichever service handle the caller used
                st.disconnect = i.node_id
            svc.disconnect_interface(i)
            st.handle, st.handle_fresh = svc, ('svc', svc.name)
        elif op == 'add_facility':
            kw = [{'capacities': Capacities(bw=n)}, {'capacities': Capacities(bw=n), 'bogus_property': 1},
                  # several interfaces: the same name twice / distinct names / the second one with a bad value
                  {'interfaces': [('fa', Labels(vlan='1'), Capacities(bw=n)), ('fa', Labels(vlan='2'), Capacities(bw=n))]},
                  {'interfaces': [('fa', Labels(vlan='1'), Capacities(bw=n)), ('fb', Labels(vlan='2'), Capacities(bw=n))]},
                  {'interfaces': [('fa', Labels(vlan='1'), Capacities(bw=n)), ('fb', 'not-labels', Capacities(bw=n))]}][c % 5]
            t.add_facility(name=NODE_NAMES[a % NN], site=SITES[b % 3], **kw)
        elif op == 'remove_facility':
            nm = NODE_NAMES[a % NN]
            facs = t.facilities
            if facs and nm in facs:
                st.gone_root = facs[nm].node_id
            t.remove_facility(name=nm)
        elif op == 'add_switch':
            kw = {'portcapacities': 'not-capacities'} if c % 6 >= 3 else {}     # a port property that is refused after node and service exist
            t.add_switch(name=NODE_NAMES[a % NN], site=SITES[b % 3], nports=c % 3, **kw)
        elif op == 'add_child_interface':
            pool = node_ifaces(t)
            par = pool[a % len(pool)]
            par.add_child_interface(name=['v1', 'v9'][b % 2], labels=Labels(vlan=VLANS[c % 4]) if VLANS[c % 4] else Labels())
            st.handle, st.handle_fresh = par, ('iface', par.node_id)
        elif op == 'remove_child_interface':
            pool = node_ifaces(t)
            par = pool[a % len(pool)]
            nm = ['v1', 'v9'][b % 2]
            kids = [k for k in par.interface_list if k.name == nm]
            if kids:
                st.gone_root = kids[0].node_id
            par.remove_child_interface(name=nm)
            st.handle, st.handle_fresh = par, ('iface', par.node_id)
        elif op == 'add_storage':
            t.nodes[['n1', 'n3'][a % 2]].add_storage(name=['vol1', 'vol9', 'nic1', 'fpga1'][b % 4], labels=Labels(local_name='x'))
        elif op == 'add_port_mirror_service':
            pool = node_ifaces(t)
            t.add_port_mirror_service(name=SVC_NAMES[a % 4], from_interface_name='p1', to_interface=pool[b % len(pool)],
                                      direction=list(MirrorDirection)[c % len(list(MirrorDirection))])
        elif op == 'peer':
            if a % NSV == b % NSV:
                return st       # peering a service with itself is not a meaningful call
            sa, sb = service(t, a), service(t, b)
            sa.peer(sb)
            st.handle, st.handle_fresh = sa, ('svc', sa.name)
        elif op == 'unpeer':
            sa, sb = service(t, a), service(t, b)
            st.unpeer = (sa.node_id, sb.node_id)
            sa.unpeer(sb)
            st.handle, st.handle_fresh = sb, ('svc', sb.name)
        elif op == 'remove_link':
            nm = ['lan3', 'nolink', 'lan3'][a % 3]     # links created by add_link; the links a service connection creates are removed by disconnect
            if nm in t.links:
                st.gone_root = t.links[nm].node_id
            t.remove_link(nm)
        elif op == 'add_link':
            rep = rep_ifaces(t)
            ifs = [rep[p % 7] for p in picks[:2 + (c % 2)]] if rep else []
            t.add_link(name=['lan3', 'lan9'][a % 2], ltype=LTYPES[b % 2], interfaces=ifs)
        elif op == 'remove_switch':
            nm = NODE_NAMES[a % NN]
            if nm in t.nodes and t.nodes[nm].type == NodeType.Switch:
                st.gone_root = t.nodes[nm].node_id
            t.remove_switch(name=nm)
        elif op == 'remove_node_service':
            # the service of a facility / switch node, removed through the node (its interface may be connected to a slice-wide service)
            node = t.facilities['fac1'] if a % 3 == 0 else t.nodes[['sw1', 'n1'][a % 3 - 1]]
            nm = ['fac1-ns', 'sw1-ns', 'nope'][b % 3]
            if nm in node.network_services:
                st.gone_root = node.network_services[nm].node_id
            node.remove_network_service(nm)
        elif op == 'remove_storage':
            node = t.nodes[CNODES[a % 3]]
            cn = ['vol1', 'vol9', 'nic1'][b % 3]
            if cn in node.components:
                st.gone_root = node.components[cn].node_id
            node.remove_storage(cn)
        elif op == 'prune':
            # mark a symbolic subset of ten elements (2 bits per index) as failed, then prune that state
            bits = []
            for v in (a, b, c, picks[0], picks[1]):
                bits += [v % 2 == 1, (v // 2) % 2 == 1]
            marked = [e for e, bit in zip(prune_pool(t), bits) if bit]
            for e in marked:
                e.set_property('reservation_info', ReservationInfo(reservation_state='failed'))
            st.gone_roots = [e.node_id for e in marked]
            t.prune('failed')
        elif op == 'set_properties':
            e = _elements(t)[a % 9]
            e.set_properties(**PROP_COMBOS[b % len(PROP_COMBOS)]())
        elif op == 'unset_property':
            e = _elements(t)[a % 9]
            e.unset_property(['labels', 'capacities', 'site', 'name', 'type', 'bogus'][b % 6])
        elif op == 'rename_node':
            t.nodes[['n1', 'n2'][a % 2]].rename(NODE_NAMES[b % NN])
        elif op == 'set_node_property':
            node = t.nodes[['n1', 'n2'][a % 2]]
            if b % 3 == 0:
                node.set_property('capacities', Capacities(core=n))
            elif b % 3 == 1:
                node.set_property('site', SITES[c % 3])
            else:
                node.unset_property(['capacities', 'site', 'image_ref'][c % 3])
        else:
            raise ValueError(op)
        st.raised = None
    except Exception as e:     # every rejected argument; BaseException (CrossHair control flow) passes through
        st.raised = type(e).__name__
    return st


ADD_OPS = ['set_properties', 'unset_property', 'add_link', 'peer', 'add_node', 'add_component', 'add_component_known_model', 'add_network_service', 'connect_interface', 'add_facility', 'add_switch',
           'add_child_interface', 'add_storage', 'add_port_mirror_service', 'rename_node', 'set_node_property']
REMOVE_OPS = ['prune', 'remove_node_service', 'remove_switch', 'remove_storage', 'unpeer', 'remove_link', 'remove_node', 'remove_component', 'remove_network_service', 'disconnect_interface', 'remove_facility',
              'remove_child_interface']
ALL_OPS = ADD_OPS + REMOVE_OPS


def removal_expected(pre, st):
    """exact post-snapshot predicted by the ownership-closure model"""
    nodes, edges = pre
    gone = []
    if st.unpeer is not None:
        a, b = st.unpeer
        out = []
        for cp in neighbours(pre, a, 'connects', 'ConnectionPoint'):
            for l in links_of(pre, cp):
                for o in neighbours(pre, l, 'connects', 'ConnectionPoint'):
                    if o != cp and b in neighbours(pre, o, 'connects', 'NetworkService'):
                        out += [cp, l, o]
        return expected_after_removal(pre, out)
    if st.gone_root is not None and nodes[st.gone_root].get('Class') == 'Link':
        return expected_after_removal(pre, [st.gone_root])
    if st.gone_roots is not None:
        gone = []
        for r_ in st.gone_roots:
            for g in owned_closure(pre, r_):
                if g not in gone:
                    gone.append(g)
    elif st.gone_root is not None:
        gone = owned_closure(pre, st.gone_root)
    elif st.disconnect is not None:
        gone = []
    cps = [g for g in gone if nodes[g].get('Class') == 'ConnectionPoint']
    if st.disconnect is not None:
        cps = [st.disconnect]
    extra = []
    for cp in cps:
        for l in links_of(pre, cp):
            ends = neighbours(pre, l, 'connects', 'ConnectionPoint')
            remaining = [o for o in ends if o not in cps]
            # a link goes when at most one end would be left (2-ended link, or a shared link losing all but one end)
            if len(remaining) <= 1:
                extra.append(l)
                for o in ends:
                    # the service-side port created for this connection goes with it
                    if o != cp and nodes[o].get('Type') == 'ServicePort' and (nodes[cp].get('Type') != 'ServicePort' or cp in gone):
                        extra.append(o)
    if st.disconnect is not None:
        gone = []
    allgone = []
    for g in gone + extra:
        if g not in allgone:
            allgone.append(g)
    return expected_after_removal(pre, allgone)


def handle_consistent(t, st):
    if st.handle is None:
        return True
    kind, key = st.handle_fresh
    if kind == 'svc':
        fresh = t.network_services[key]
    else:
        fresh = [i for i in t.interface_list if i.node_id == key][0]
    return sorted(i.node_id for i in st.handle.interface_list) == sorted(i.node_id for i in fresh.interface_list)


def mk(prop, kind, op, small=False):
    def h_step(a: int, b: int, c: int, n: int, m: str, p0: int, p1: int, p2: int) -> bool:
        """
        pre: 0 <= a < 12 and 0 <= b < 12 and 0 <= c < 6 and n >= 0 and len(m) <= 3
        pre: 0 <= p0 < 9 and 0 <= p1 < 9 and 0 <= p2 < 9
        post: R(_)
        """
        begin()
        t = skeleton(kind)
        pre = untraced(snap, t)
        if small and op == 'add_network_service':
            c = c % 2        # quick tier: at most one interface handed to the new service
        if small and op == 'prune':
            p1 = 0           # quick tier: the last two of the ten elements stay unmarked (256 subsets)
        if small and op == 'add_link':
            c = 0            # quick tier: two interfaces handed to the new link
        if small and prop == 'C09' and op == 'add_component':
            a, b = a % 2, b % 3          # quick tier: two nodes, three names (taken on both / taken on one / ...), every component type
        if small and prop == 'C09' and op == 'add_component_known_model':
            b = b % 2                    # quick tier: a taken and a free name
        st = do_step(t, op, a, b, c, n, m, [p0, p1, p2], prop == 'C09')
        post = untraced(snap, t)

        if prop == 'C09':
            if st.raised is not None:
                return untraced(same_snap, pre, post)
            return True
        if prop == 'C07':
            return untraced(invariant_problems, t) == [] and untraced(views_problems, t) == []
        if prop == 'C08':
            if st.raised is not None:
                return True
            if st.gone_root is None and st.disconnect is None and st.unpeer is None and not st.gone_roots:
                # nothing was addressed that exists: nothing may change
                return untraced(same_snap, pre, post) if op in REMOVE_OPS else True
            exp = untraced(removal_expected, pre, st)
            return untraced(same_snap, exp, post) and untraced(handle_consistent, t, st)
        raise ValueError(prop)
    return h_step


# ------------------------------------------------------------------ two consecutive steps (thorough)
# reduced argument pools per operation so that the product of two steps stays small; indices are taken modulo these ranges
USES2 = {
    'add_node': (3, 1, 2, 0), 'remove_node': (3, 0, 0, 0), 'add_component_known_model': (2, 2, 3, 1), 'remove_component': (2, 3, 0, 0),
    'add_network_service': (2, 3, 2, 1), 'remove_network_service': (3, 0, 0, 0), 'connect_interface': (2, 4, 0, 0),
    'disconnect_interface': (2, 4, 0, 0), 'add_child_interface': (3, 2, 2, 0), 'remove_child_interface': (3, 2, 0, 0),
    'add_facility': (6, 1, 2, 0), 'remove_facility': (6, 0, 0, 0),
}
OPS2_FIRST = ['add_node', 'add_component_known_model', 'add_network_service', 'connect_interface', 'disconnect_interface',
              'remove_node', 'remove_component', 'remove_network_service', 'add_child_interface']
OPS2_SECOND = OPS2_FIRST + ['remove_child_interface', 'add_facility', 'remove_facility']


def mk2(prop, kind, op1, op2):
    def h_two(a1: int, b1: int, c1: int, q1: int, a2: int, b2: int, c2: int, q2: int) -> bool:
        """
        pre: 0 <= a1 < 9 and 0 <= b1 < 9 and 0 <= c1 < 6 and 0 <= q1 < 9
        pre: 0 <= a2 < 9 and 0 <= b2 < 9 and 0 <= c2 < 6 and 0 <= q2 < 9
        post: R(_)
        """
        begin()
        t = skeleton(kind)
        for (op, a, b, c, q) in ((op1, a1, b1, c1, q1), (op2, a2, b2, c2, q2)):
            pre = untraced(snap, t)
            st = do_step(t, op, a, b, c, 2, 'x', [q, q, q], False, USES2)
            if prop == 'C09':
                if st.raised is not None and not untraced(same_snap, pre, untraced(snap, t)):
                    return False
            elif prop == 'C07':
                if untraced(invariant_problems, t) != [] or untraced(views_problems, t) != []:
                    return False
            elif prop == 'C08':
                if st.raised is None and (st.gone_root is not None or st.disconnect is not None or st.unpeer is not None):
                    exp = untraced(removal_expected, pre, st)
                    if not untraced(same_snap, exp, untraced(snap, t)) or not untraced(handle_consistent, t, st):
                        return False
        return True
    return h_two
