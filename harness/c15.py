"""C15 - capacity arithmetic and comparison laws.  Every field value is an unbounded
symbolic int (>= 0 for constructor inputs); the field list is read from the live class."""
from typing import List
from vf.prelude import R, begin
from vf.registry import harness
from fim.slivers.capacities_labels import Capacities, FreeCapacity

F = sorted(Capacities().__dict__.keys())
NF = len(F)
ENC = ("fim.slivers.capacities_labels.Capacities.__add__", "fim.slivers.capacities_labels.Capacities.__sub__",
       "fim.slivers.capacities_labels.Capacities.__lt__", "fim.slivers.capacities_labels.Capacities.__gt__",
       "fim.slivers.capacities_labels.Capacities.__eq__", "fim.slivers.capacities_labels.Capacities.negative_fields",
       "fim.slivers.capacities_labels.Capacities.positive_fields", "fim.slivers.capacities_labels.FreeCapacity.__init__",
       "fim.slivers.capacities_labels.Capacities._set_fields", "fim.slivers.capacities_labels.Capacities.__str__")
B = "all %d fields, unbounded ints >= 0" % NF


def mk(v):
    return Capacities(**{f: v[i] for i, f in enumerate(F)})


def vals(c):
    return [c.__dict__[f] for f in F]


def nonneg(v):
    for x in v:
        if x < 0:
            return False
    return True


@harness("addsub_inverse", timeout=90, encodes=ENC, bounds=B)
def h_addsub(a: List[int], b: List[int]) -> bool:
    """
    pre: len(a) == NF and len(b) == NF
    pre: nonneg(a) and nonneg(b)
    post: R(_)
    """
    ca, cb = mk(a), mk(b)
    s = ca + cb
    d = s - cb
    if vals(d) != list(a):
        return False
    for i in range(NF):
        if vals(s)[i] != a[i] + b[i]:
            return False
    # operands unchanged, results are new objects
    if vals(ca) != list(a) or vals(cb) != list(b):
        return False
    if s is ca or s is cb or d is s:
        return False
    if sorted(s.__dict__.keys()) != F:
        return False
    return True


@harness("add_commutes", timeout=90, encodes=ENC, bounds=B)
def h_comm(a: List[int], b: List[int]) -> bool:
    """
    pre: len(a) == NF and len(b) == NF
    pre: nonneg(a) and nonneg(b)
    post: R(_)
    """
    ca, cb = mk(a), mk(b)
    return vals(ca + cb) == vals(cb + ca) and (ca + cb) == (cb + ca)


@harness("free_plus_allocated", timeout=90, encodes=ENC, bounds=B)
def h_free(t: List[int], a: List[int]) -> bool:
    """
    pre: len(t) == NF and len(a) == NF
    pre: nonneg(t) and nonneg(a)
    post: R(_)
    """
    ct, ca = mk(t), mk(a)
    fc = FreeCapacity(total=ct, allocated=ca)
    for i, f in enumerate(F):
        if getattr(fc, f) != t[i] - a[i]:
            return False
        if getattr(fc, f) + a[i] != t[i]:
            return False
    if vals(fc.free + ca) != list(t):
        return False
    if vals(ct) != list(t) or vals(ca) != list(a):
        return False
    fn = FreeCapacity(total=ct, allocated=None)
    return vals(fn.free) == list(t)


@harness("lt_vs_subtraction", timeout=300, encodes=ENC, bounds=B)
def h_lt(a: List[int], b: List[int]) -> bool:
    """
    pre: len(a) == NF and len(b) == NF
    pre: nonneg(a) and nonneg(b)
    post: R(_)
    """
    ca, cb = mk(a), mk(b)
    fits = (ca < cb)
    if not isinstance(fits, bool):
        return False
    neg = (cb - ca).negative_fields()
    if fits != (neg == []):
        return False
    return vals(ca) == list(a) and vals(cb) == list(b)


@harness("gt_vs_subtraction", timeout=300, encodes=ENC, bounds=B)
def h_gt(a: List[int], b: List[int]) -> bool:
    """
    pre: len(a) == NF and len(b) == NF
    pre: nonneg(a) and nonneg(b)
    post: R(_)
    """
    ca, cb = mk(a), mk(b)
    gt = (ca > cb)
    if not isinstance(gt, bool):
        return False
    if gt != ((ca - cb).negative_fields() == []):
        return False
    return vals(ca) == list(a) and vals(cb) == list(b)


@harness("negative_fields_by_name", timeout=300, encodes=ENC, bounds=B)
def h_negnames(a: List[int], b: List[int]) -> bool:
    """
    pre: len(a) == NF and len(b) == NF
    pre: nonneg(a) and nonneg(b)
    post: R(_)
    """
    neg = (mk(b) - mk(a)).negative_fields()
    exp = [f for i, f in enumerate(F) if b[i] - a[i] < 0]
    return sorted(neg) == exp


@harness("eq_laws", timeout=120, encodes=ENC, bounds=B)
def h_eq(a: List[int], b: List[int]) -> bool:
    """
    pre: len(a) == NF and len(b) == NF
    pre: nonneg(a) and nonneg(b)
    post: R(_)
    """
    ca, cb = mk(a), mk(b)
    if not (ca == ca):
        return False
    e1, e2 = (ca == cb), (cb == ca)
    if e1 != e2:
        return False
    if e1 != (list(a) == list(b)):
        return False
    if ca == None:  # noqa: E711  (documented: comparison with nothing is False)
        return False
    return True


@harness("negative_result_representable", timeout=300, encodes=ENC, bounds=B)
def h_negrepr(a: List[int], b: List[int]) -> bool:
    """
    pre: len(a) == NF and len(b) == NF
    pre: nonneg(a) and nonneg(b)
    post: R(_)
    """
    d = mk(a) - mk(b)
    for i in range(NF):
        if vals(d)[i] != a[i] - b[i]:
            return False
    s1 = d.to_dict()
    if s1 is None:
        return list(a) == list(b)
    for i, f in enumerate(F):
        if a[i] != b[i] and s1.get(f) != a[i] - b[i]:
            return False
        if a[i] == b[i] and f in s1:
            return False
    return True


@harness("positive_fields", timeout=120, encodes=ENC, bounds=B)
def h_posfields(a: List[int], b: List[int], pick: int) -> bool:
    """
    pre: len(a) == NF and len(b) == NF
    pre: nonneg(a) and nonneg(b)
    pre: 0 <= pick < NF
    post: R(_)
    """
    d = mk(a) - mk(b)
    if d.positive_fields(F[pick]) != (a[pick] - b[pick] > 0):
        return False
    return d.positive_fields([F[pick], F[0]]) == (a[pick] - b[pick] > 0 and a[0] - b[0] > 0)


@harness("negative_result_printable", timeout=40, core=False, encodes=ENC,
         bounds=B + "; str()/to_json() format symbolic ints through C code, so this harness is bug-hunting only "
                    "(a raising value is found, absence is not confirmed)")
def h_negprint(a: List[int], b: List[int]) -> bool:
    """
    pre: len(a) == NF and len(b) == NF
    pre: nonneg(a) and nonneg(b)
    post: R(_)
    """
    d = mk(a) - mk(b)
    fc = FreeCapacity(total=mk(a), allocated=mk(b))
    return isinstance(str(d), str) and isinstance(str(fc), str) and isinstance(d.to_json(), str)


@harness("assoc_three", timeout=180, tiers=("thorough",), encodes=ENC, bounds=B + ", three operands")
def h_assoc(a: List[int], b: List[int], c: List[int]) -> bool:
    """
    pre: len(a) == NF and len(b) == NF and len(c) == NF
    pre: nonneg(a) and nonneg(b) and nonneg(c)
    post: R(_)
    """
    ca, cb, cc = mk(a), mk(b), mk(c)
    l = (ca + cb) + cc
    r = ca + (cb + cc)
    if vals(l) != vals(r):
        return False
    if vals((l - cc) - cb) != list(a):
        return False
    return vals(ca) == list(a) and vals(cb) == list(b) and vals(cc) == list(c)
