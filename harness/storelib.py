"""Shared machinery for the in-memory store properties (C04, C05, C20a): opaque-token labels,
store construction on both backends, canonical snapshots and an executable reference model of the
documented property-graph interface."""
import networkx as nx
from crosshair.tracers import is_tracing
from fim.graph.networkx_property_graph import NetworkXPropertyGraph, NetworkXGraphImporter
from fim.graph.networkx_property_graph_disjoint import NetworkXPropertyGraphDisjoint, NetworkXGraphImporterDisjoint
from fim.graph.abc_property_graph import ABCPropertyGraph, PropertyGraphQueryException, PropertyGraphImportException

QE = PropertyGraphQueryException
NO_UNSET = list(ABCPropertyGraph.NO_UNSET_PROPERTIES)
PNAMES = ['P', 'Q', 'Class', 'NodeID', 'GraphID', 'Type', 'Name']


def tok(k):
    """opaque token under symbolic execution (a symbolic int, only ==/!= and truthiness are meaningful), the real
    string 'L<k>' in the concrete replay - see harness/c06.py:tok for the rationale."""
    return k if is_tracing() else 'L%d' % k


def importer(disjoint):
    return NetworkXGraphImporterDisjoint() if disjoint else NetworkXGraphImporter()


def pg(imp, gid, disjoint):
    return (NetworkXPropertyGraphDisjoint if disjoint else NetworkXPropertyGraph)(graph_id=gid, importer=imp)


def raw_graph(nodes, edges, key_base=0):
    """nodes: list of property dicts (must contain NodeID, Class); edges: list of (i, j, props)"""
    g = nx.Graph()
    for i, p in enumerate(nodes):
        g.add_node(key_base + i, **p)
    for (a, b, p) in edges:
        g.add_edge(key_base + a, key_base + b, **p)
    return g


def snapshot(imp, gid):
    """observable content of one graph: nodes and edges in internal-id order (ids of another graph never change
    under an operation addressed elsewhere, so positional comparison is exact); None if the graph is absent"""
    g = imp.storage.extract_graph(gid)
    if g is None or len(g.nodes) == 0:
        return None
    ns = sorted(g.nodes)
    nodes = [(n, sorted(g.nodes[n].items(), key=lambda kv: kv[0])) for n in ns]
    edges = []
    for (a, b) in sorted((min(a, b), max(a, b)) for a, b in g.edges):
        edges.append((a, b, sorted(g.edges[(a, b)].items(), key=lambda kv: kv[0])))
    return nodes, edges


def content(imp, gid):
    """content of a graph without internal ids: node property lists in internal-id order + edges as index pairs"""
    s = snapshot(imp, gid)
    if s is None:
        return None
    nodes, edges = s
    pos = {n: i for i, (n, _) in enumerate(nodes)}
    return [p for (_, p) in nodes], [(pos[a], pos[b], p) for (a, b, p) in edges]


def same_multiset(a, b):
    if len(a) != len(b):
        return False
    used = [False] * len(b)
    for x in a:
        hit = False
        for j, y in enumerate(b):
            if not used[j] and x == y:
                used[j] = True
                hit = True
                break
        if not hit:
            return False
    return True


def internal_ids_distinct(imp):
    g = imp.storage.get_graph('g1')
    ids = list(g.nodes)
    return len(ids) == len(set(ids))


# ------------------------------------------------------------------ reference model of the documented interface
class RefGraph:
    """Executable reading of the ABCPropertyGraph docstrings: a list of nodes (dicts with NodeID, Class, GraphID and
    properties) and a list of undirected single edges (a_index-free: by node object identity)."""

    def __init__(self, gid, nodes, edges):
        self.gid = gid
        self.nodes = []
        for p in nodes:
            d = dict(p)
            d['GraphID'] = gid
            self.nodes.append(d)
        self.edges = [[self.nodes[a], self.nodes[b], dict(p)] for (a, b, p) in edges]

    def _find(self, node_id):
        hits = [n for n in self.nodes if n['NodeID'] == node_id]
        if len(hits) != 1:
            raise QE(graph_id=self.gid, node_id=node_id, msg="Unable to find node")
        return hits[0]

    def _edge(self, a, b):
        for e in self.edges:
            if (e[0] is a and e[1] is b) or (e[0] is b and e[1] is a):
                return e
        return None

    def add_node(self, node_id, label, props=None):
        # a node id is unique within its graph whatever the node's class
        if any(n['NodeID'] == node_id for n in self.nodes):
            raise QE(graph_id=self.gid, node_id=node_id, msg="exists")
        d = {'GraphID': self.gid, 'Class': label, 'NodeID': node_id}
        if props:
            d.update(props)
        self.nodes.append(d)

    def delete_node(self, node_id):
        n = self._find(node_id)
        self.edges = [e for e in self.edges if e[0] is not n and e[1] is not n]
        self.nodes = [m for m in self.nodes if m is not n]

    def add_link(self, node_a, rel, node_b, props=None):
        a, b = self._find(node_a), self._find(node_b)
        e = self._edge(a, b)
        if e is None:
            e = [a, b, {}]
            self.edges.append(e)
        e[2]['Class'] = rel
        if props:
            e[2].update(props)

    def get_node_properties(self, node_id):
        n = dict(self._find(node_id))
        label = n.pop('Class')
        return [label], n

    def get_link_properties(self, node_a, node_b):
        a, b = self._find(node_a), self._find(node_b)
        e = self._edge(a, b)
        if e is None:
            raise QE(graph_id=self.gid, node_id=node_a, msg="Link doesn't exist")
        p = dict(e[2])
        return p.pop('Class'), p

    def update_node_property(self, node_id, prop_name, prop_val):
        if prop_name == 'Class':
            raise QE(graph_id=self.gid, node_id=node_id, msg="class")
        self._find(node_id)[prop_name] = prop_val

    def unset_node_property(self, node_id, prop_name):
        if prop_name == 'Class' or prop_name in NO_UNSET:
            raise QE(graph_id=self.gid, node_id=node_id, msg="identity")
        n = self._find(node_id)
        if prop_name not in n:
            raise QE(graph_id=self.gid, node_id=node_id, msg="absent")
        n.pop(prop_name)

    def update_nodes_property(self, prop_name, prop_val):
        if len(self.nodes) == 0:
            raise QE(graph_id=self.gid, node_id=None, msg="no nodes")
        if prop_name == 'Class':
            raise QE(graph_id=self.gid, node_id=None, msg="class")
        for n in self.nodes:
            n[prop_name] = prop_val

    def update_node_properties(self, node_id, props):
        if 'Class' in props:
            raise QE(graph_id=self.gid, node_id=node_id, msg="class")
        self._find(node_id).update(props)

    def _typed_edge(self, node_a, node_b, kind):
        a, b = self._find(node_a), self._find(node_b)
        e = self._edge(a, b)
        if e is None or e[2].get('Class') != kind:
            raise QE(graph_id=self.gid, node_id=node_a, msg="link")
        return e

    def update_link_property(self, node_a, node_b, kind, prop_name, prop_val):
        if prop_name == 'Class':
            raise QE(graph_id=self.gid, node_id=None, msg="class")
        self._typed_edge(node_a, node_b, kind)[2][prop_name] = prop_val

    def unset_link_property(self, node_a, node_b, kind, prop_name):
        if prop_name == 'Class':
            raise QE(graph_id=self.gid, node_id=None, msg="class")
        self._typed_edge(node_a, node_b, kind)[2].pop(prop_name, None)

    def update_link_properties(self, node_a, node_b, kind, props):
        if 'Class' in props:
            raise QE(graph_id=self.gid, node_id=None, msg="class")
        self._typed_edge(node_a, node_b, kind)[2].update(props)

    def get_all_nodes_by_class(self, label):
        return [n['NodeID'] for n in self.nodes if n['Class'] == label]

    def get_all_nodes_by_class_and_type(self, label, ntype):
        return [n['NodeID'] for n in self.nodes if n['Class'] == label and n.get('Type') == ntype and 'Type' in n]

    def list_all_node_ids(self):
        if len(self.nodes) == 0:
            raise QE(graph_id=self.gid, node_id=None, msg="no nodes")
        return [n['NodeID'] for n in self.nodes]

    def node_exists(self, node_id, label):
        return len([n for n in self.nodes if n['NodeID'] == node_id and n['Class'] == label]) == 1

    def check_node_unique(self, label, name):
        return len([n for n in self.nodes if n['Class'] == label and n.get('Name') == name and 'Name' in n]) == 0

    def graph_exists(self):
        return len(self.nodes) > 0

    def content(self):
        if not self.nodes:
            return None
        nodes = [sorted(n.items(), key=lambda kv: kv[0]) for n in self.nodes]
        edges = []
        for e in self.edges:
            ia = [i for i, n in enumerate(self.nodes) if n is e[0]][0]
            ib = [i for i, n in enumerate(self.nodes) if n is e[1]][0]
            edges.append((min(ia, ib), max(ia, ib), sorted(e[2].items(), key=lambda kv: kv[0])))
        edges.sort(key=lambda t: (t[0], t[1]))
        return nodes, edges


def same_content(real, ref):
    """real: content(imp, gid); ref: RefGraph.content(); node order is insertion order in both"""
    if real is None or ref is None:
        return real is None and ref is None
    rn, re_ = real
    fn, fe = ref
    if len(rn) != len(fn) or len(re_) != len(fe):
        return False
    for a, b in zip(rn, fn):
        if a != b:
            return False
    for a, b in zip(sorted(re_, key=lambda t: (t[0], t[1])), fe):
        if a[0] != b[0] or a[1] != b[1] or a[2] != b[2]:
            return False
    return True
