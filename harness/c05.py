"""C05 - the two in-memory backends agree with each other and with an executable reference
model of the documented interface, step by step, for symbolic ids/classes/relations/values
(opaque tokens, see storelib.tok) and symbolic property names from a pool that includes the identity names."""
from typing import List
from vf.prelude import R, begin
from vf.registry import harness, add
from harness.storelib import (tok, importer, pg, raw_graph, content, RefGraph, same_content, same_multiset, PNAMES, QE, NO_UNSET)
from fim.graph.abc_property_graph import ABCPropertyGraph

P = "fim.graph.networkx_property_graph.NetworkXPropertyGraph."
ENC = tuple(P + m for m in ("add_node", "delete_node", "add_link", "get_node_properties", "get_link_properties", "update_node_property",
                            "unset_node_property", "update_nodes_property", "update_node_properties", "update_link_property",
                            "unset_link_property", "update_link_properties", "get_all_nodes_by_class", "get_all_nodes_by_class_and_type",
                            "list_all_node_ids", "node_exists", "check_node_unique", "graph_exists", "merge_nodes", "find_matching_nodes",
                            "delete_graph")) + \
    ("fim.graph.networkx_mixin.NetworkXMixin._find_node", "fim.graph.networkx_property_graph_disjoint.NetworkXPropertyGraphDisjoint.merge_nodes",
     "fim.graph.networkx_property_graph_disjoint.NetworkXPropertyGraphDisjoint.graph_exists")
OPS = ["add_node", "delete_node", "add_link", "update_node_property", "unset_node_property", "update_nodes_property",
       "update_node_properties", "update_link_property", "unset_link_property", "update_link_properties",
       "update_node_properties_rev", "update_link_properties_rev",
       "get_node_properties", "get_link_properties", "get_all_nodes_by_class", "get_all_nodes_by_class_and_type",
       "list_all_node_ids", "node_exists", "check_node_unique", "graph_exists", "delete_graph"]
NODE_IDS = ['n0', 'n1', 'n9']
MUTATING = OPS[:12] + ["delete_graph"]
USES_K = {"update_node_property", "unset_node_property", "update_nodes_property", "update_node_properties",
          "update_link_property", "unset_link_property", "update_link_properties", "update_node_properties_rev", "update_link_properties_rev"}
UPDATES = {"update_node_property", "update_nodes_property", "update_node_properties", "update_node_properties_rev"}


def seed(i0, i1, c0, c1, n0, v0, r0, w0):
    nodes = [{'NodeID': i0, 'Class': c0, 'Name': n0, 'P': v0, 'Type': c1}, {'NodeID': i1, 'Class': c1, 'Name': n0}]
    edges = [(0, 1, {'Class': r0, 'Q': w0})]
    decoy = [{'NodeID': i0, 'Class': c0, 'Name': n0}]
    return nodes, edges, decoy


def make(disjoint, nodes, edges, decoy):
    imp = importer(disjoint)
    imp.storage.add_graph('g2', raw_graph(decoy, [], key_base=50))
    imp.storage.add_graph('g1', raw_graph(nodes, edges, key_base=7))
    return imp, pg(imp, 'g1', disjoint)


def call(target, op, x, y, l, k, v, is_ref):
    """apply one operation; returns ('ok', normalised result) or ('exc', exception class name)"""
    # index the pools lazily: an index into a list forks once per value, so only arguments the operation uses are looked up
    uses_x = op in ("add_node", "delete_node", "add_link", "update_node_property", "unset_node_property", "update_node_properties",
                    "update_link_property", "unset_link_property", "update_link_properties", "get_node_properties", "get_link_properties",
                    "node_exists", "update_node_properties_rev", "update_link_properties_rev")
    uses_y = op in ("add_link", "update_link_property", "unset_link_property", "update_link_properties", "get_link_properties",
                    "update_link_properties_rev")
    x = NODE_IDS[x] if uses_x else None
    y = NODE_IDS[y] if uses_y else None
    pn = PNAMES[k] if op in USES_K else None
    try:
        if op == "add_node":
            r = target.add_node(x, l, {'P': v}) if is_ref else target.add_node(node_id=x, label=l, props={'P': v})
        elif op == "delete_node":
            r = target.delete_node(x) if is_ref else target.delete_node(node_id=x)
        elif op == "add_link":
            r = target.add_link(x, l, y, {'Q': v}) if is_ref else target.add_link(node_a=x, rel=l, node_b=y, props={'Q': v})
        elif op == "update_node_property":
            r = target.update_node_property(x, pn, v) if is_ref else target.update_node_property(node_id=x, prop_name=pn, prop_val=v)
        elif op == "unset_node_property":
            r = target.unset_node_property(x, pn) if is_ref else target.unset_node_property(node_id=x, prop_name=pn)
        elif op == "update_nodes_property":
            r = target.update_nodes_property(pn, v) if is_ref else target.update_nodes_property(prop_name=pn, prop_val=v)
        elif op == "update_node_properties":
            r = target.update_node_properties(x, {pn: v, 'P': v}) if is_ref else target.update_node_properties(node_id=x, props={pn: v, 'P': v})
        elif op == "update_node_properties_rev":
            # the same bulk update with the symbolic (possibly refused) name AFTER an ordinary one
            r = target.update_node_properties(x, {'P': v, pn: v}) if is_ref else target.update_node_properties(node_id=x, props={'P': v, pn: v})
        elif op == "update_link_properties_rev":
            r = target.update_link_properties(x, y, l, {'Q': v, pn: v}) if is_ref else \
                target.update_link_properties(node_a=x, node_b=y, kind=l, props={'Q': v, pn: v})
        elif op == "update_link_property":
            r = target.update_link_property(x, y, l, pn, v) if is_ref else \
                target.update_link_property(node_a=x, node_b=y, kind=l, prop_name=pn, prop_val=v)
        elif op == "unset_link_property":
            r = target.unset_link_property(x, y, l, pn) if is_ref else target.unset_link_property(node_a=x, node_b=y, kind=l, prop_name=pn)
        elif op == "update_link_properties":
            r = target.update_link_properties(x, y, l, {pn: v}) if is_ref else \
                target.update_link_properties(node_a=x, node_b=y, kind=l, props={pn: v})
        elif op == "get_node_properties":
            r = target.get_node_properties(x) if is_ref else target.get_node_properties(node_id=x)
            r = (list(r[0]), sorted(dict(r[1]).items(), key=lambda kv: kv[0]))
        elif op == "get_link_properties":
            r = target.get_link_properties(x, y) if is_ref else target.get_link_properties(node_a=x, node_b=y)
            r = (r[0], sorted(dict(r[1]).items(), key=lambda kv: kv[0]))
        elif op == "get_all_nodes_by_class":
            r = ('set', list(target.get_all_nodes_by_class(l) if is_ref else target.get_all_nodes_by_class(label=l)))
        elif op == "get_all_nodes_by_class_and_type":
            r = ('set', list(target.get_all_nodes_by_class_and_type(l, v) if is_ref else target.get_all_nodes_by_class_and_type(label=l, ntype=v)))
        elif op == "list_all_node_ids":
            r = ('set', list(target.list_all_node_ids()))
        elif op == "node_exists":
            r = target.node_exists(x, l) if is_ref else target.node_exists(node_id=x, label=l)
        elif op == "check_node_unique":
            r = target.check_node_unique(l, v) if is_ref else target.check_node_unique(label=l, name=v)
        elif op == "graph_exists":
            r = target.graph_exists()
        elif op == "delete_graph":
            if is_ref:
                target.nodes, target.edges = [], []
                r = None
            else:
                r = target.delete_graph()
        else:
            raise ValueError(op)
        return ('ok', r)
    except QE:
        return ('exc', 'PropertyGraphQueryException')


def same_result(a, b):
    if a[0] != b[0]:
        return False
    if a[0] == 'exc':
        return a[1] == b[1]
    ra, rb = a[1], b[1]
    if isinstance(ra, tuple) and len(ra) == 2 and ra[0] == 'set':
        return isinstance(rb, tuple) and rb[0] == 'set' and same_multiset(ra[1], rb[1])
    return ra == rb


def identity_intact(imp, gid):
    """identity properties are still on every node; Class untouched is covered by the 3-way content comparison"""
    c = content(imp, gid)
    if c is None:
        return True
    for props in c[0]:
        names = [k for k, _ in props]
        for must in ('GraphID', 'NodeID', 'Class'):
            if must not in names:
                return False
    return True


def step(targets, ref, imps, op, x, y, l, k, v):
    ra = call(targets[0], op, x, y, l, k, v, False)
    rb = call(targets[1], op, x, y, l, k, v, False)
    rr = call(ref, op, x, y, l, k, v, True)
    if not same_result(ra, rr) or not same_result(rb, rr):
        return False
    ca, cb = content(imps[0], 'g1'), content(imps[1], 'g1')
    cr = ref.content()
    if not same_content(ca, cr) or not same_content(cb, cr):
        return False
    return identity_intact(imps[0], 'g1') and identity_intact(imps[1], 'g1')


def k_ok(op, k):
    # updating NodeID / GraphID re-homes or renames a node (deliberately outside; C14 covers re-homing)
    return not (op in UPDATES and (k == PNAMES.index('NodeID') or k == PNAMES.index('GraphID')))


def _mk(ops, prefix=()):
    nops = len(ops)

    def h_seq(c0: int, c1: int, n0: int, v0: int, r0: int, w0: int,
              x1: int, y1: int, l1: int, k1: int, v1: int, x2: int, y2: int, l2: int, k2: int, v2: int) -> bool:
        """
        pre: 0 <= x1 < 3 and 0 <= y1 < 3 and 0 <= x2 < 3 and 0 <= y2 < 3
        pre: 0 <= k1 < 7 and 0 <= k2 < 7
        post: R(_)
        """
        begin()
        _closure = (nops,)
        if not k_ok(ops[0], k1) or (nops > 1 and not k_ok(ops[1], k2)):
            return True
        # node ids: concrete pool, the addressed id is a symbolic index into it (existing id 0/1 or the unused one);
        # classes, names, relations and values are opaque tokens
        T = [NODE_IDS[0], NODE_IDS[1]] + [tok(z) for z in (c0, c1, n0, v0, r0, w0)]
        nodes, edges, decoy = seed(*T)
        ia, a = make(False, nodes, edges, decoy)
        ib, b = make(True, nodes, edges, decoy)
        ref = RefGraph('g1', nodes, edges)
        dec_a, dec_b = content(ia, 'g2'), content(ib, 'g2')
        for (pop, px) in prefix:
            if not step((a, b), ref, (ia, ib), pop, px, 0, 'C', 0, 'v'):
                return False
        args = [(x1, y1, tok(l1), k1, tok(v1)), (x2, y2, tok(l2), k2, tok(v2))]
        for j, op in enumerate(ops):
            if not step((a, b), ref, (ia, ib), op, *args[j]):
                return False
        # the other graph in the store is never touched
        return content(ia, 'g2') == dec_a and content(ib, 'g2') == dec_b
    return h_seq


for _op in OPS:
    add("step1/" + _op, _mk([_op]), timeout=600, encodes=ENC,
        bounds="seed graph (2 nodes, 1 edge, decoy graph sharing a node id) with symbolic ids/classes/names/values; one %s with symbolic "
               "arguments (node id by symbolic index: an existing id or an unused one; property name from %s)" % (_op, PNAMES))

# every operation on a graph that has been emptied node by node (the graph id is still known to the store, no node carries it)
for _op in OPS:
    add("emptied/" + _op, _mk([_op], prefix=(("delete_node", 0), ("delete_node", 1))), timeout=600, encodes=ENC,
        bounds="as step1, after both nodes of the seed graph have been deleted one by one (concrete prefix, compared three ways as well)")

_Q_FIRST = ["add_node", "delete_node"]
_T_FIRST = ["add_link", "unset_node_property", "update_node_property", "update_nodes_property", "unset_link_property", "delete_graph"]
for _o1 in _Q_FIRST + _T_FIRST:
    for _o2 in OPS:
        add("step2/%s+%s" % (_o1, _o2), _mk([_o1, _o2]), timeout=900 if _o1 in _Q_FIRST else 2400, tiers=("quick", "thorough") if _o1 in _Q_FIRST else ("thorough",),
            encodes=ENC, bounds="as step1, two operations (%s then %s) with independent symbolic arguments" % (_o1, _o2))


@harness("merge_nodes_policy", timeout=600, encodes=ENC,
         bounds="node shared by two graphs in the shared store, each side with its own edge and property values (symbolic); per-property "
                "policy discard/overwrite/combine by symbolic index; the per-graph backend must refuse")
def h_merge(i0: int, i1: int, i2: int, pa: int, pb: int, na: int, nb: int, pol_p: int, pol_n: int) -> bool:
    """
    pre: i0 >= 1 and i1 >= 1 and i2 >= 1 and i0 != i1 and i0 != i2
    pre: 0 <= pol_p <= 3 and 0 <= pol_n <= 3
    post: R(_)
    """
    begin()
    POL = [None, 'discard', 'overwrite', 'combine']
    I0, I1, I2, PA, PB, NA, NB = (tok(z) for z in (i0, i1, i2, pa, pb, na, nb))
    ga = raw_graph([{'NodeID': I0, 'Class': 'C', 'P': PA, 'Name': NA}, {'NodeID': I1, 'Class': 'C'}], [(0, 1, {'Class': 'ra'})])
    gb = raw_graph([{'NodeID': I0, 'Class': 'C', 'P': PB, 'Name': NB}, {'NodeID': I2, 'Class': 'C'}], [(0, 1, {'Class': 'rb'})])
    imp = importer(False)
    imp.storage.add_graph('g1', ga)
    imp.storage.add_graph('g3', gb)
    a, b = pg(imp, 'g1', False), pg(imp, 'g3', False)
    exp_match = [I0] + ([I1] if i1 == i2 else [])
    if not same_multiset(list(a.find_matching_nodes(other_graph=b)), exp_match):
        return False
    mp = {}
    if POL[pol_p]:
        mp['P'] = POL[pol_p]
    if POL[pol_n]:
        mp['Name'] = POL[pol_n]
    a.merge_nodes(node_id=I0, other_graph=b, merge_properties=mp if mp else None)
    _, props = a.get_node_properties(node_id=I0)
    exp_p = {None: PA, 'discard': PA, 'overwrite': PB, 'combine': [PA, PB]}[POL[pol_p]]
    exp_n = {None: NA, 'discard': NA, 'overwrite': NB, 'combine': [NA, NB]}[POL[pol_n]]
    if props.get('P') != exp_p or props.get('Name') != exp_n or props.get('GraphID') != 'g1' or props.get('NodeID') != I0:
        return False
    # every edge of both nodes is kept
    g = imp.storage.get_graph('g1')
    me = a._find_node(node_id=I0)
    rels = sorted(g.edges[(me, n)].get('Class') for n in g.neighbors(me))
    if rels != ['ra', 'rb']:
        return False
    # the per-graph backend documents merging as unsupported
    impd = importer(True)
    impd.storage.add_graph('g1', raw_graph([{'NodeID': I0, 'Class': 'C'}], []))
    impd.storage.add_graph('g3', raw_graph([{'NodeID': I0, 'Class': 'C'}], []))
    try:
        pg(impd, 'g1', True).merge_nodes(node_id=I0, other_graph=pg(impd, 'g3', True))
        return False
    except RuntimeError:
        return True


# ------------------------------------------------------------------ import / delete / re-import across the two stores
def _mk_import(seq):
    def h_import(c0: int, c1: int, v0: int, v1: int) -> bool:
        """
        post: R(_)
        """
        begin()
        C0, C1, V0, V1 = tok(c0), tok(c1), tok(v0), tok(v1)
        first = [{'NodeID': 'n0', 'Class': C0, 'P': V0}, {'NodeID': 'n1', 'Class': C1}]
        second = [{'NodeID': 'n0', 'Class': C1, 'P': V1}, {'NodeID': 'z9', 'Class': C0}, {'NodeID': 'z8', 'Class': C0}]
        outs = []
        for dj in (False, True):
            imp = importer(dj)
            imp.storage.add_graph('g1', raw_graph(first, [(0, 1, {'Class': 'r'})], key_base=3))
            for op in seq:
                if op == 'delete':
                    imp.delete_graph(graph_id='g1')
                elif op == 'reimport':
                    imp.storage.add_graph('g1', raw_graph(second, [(0, 1, {'Class': 'r'}), (1, 2, {'Class': 'r'})], key_base=3))
                elif op == 'add_node':
                    pg(imp, 'g1', dj).add_node(node_id='fresh', label=C0, props={'P': V1})
            outs.append(content(imp, 'g1'))
        return outs[0] == outs[1]
    return h_import


for _seq in (('delete', 'reimport'), ('delete', 'reimport', 'add_node'), ('reimport',), ('reimport', 'add_node')):
    add("stores_agree/" + "+".join(_seq), _mk_import(list(_seq)), timeout=300, encodes=ENC, finding="reimport_skip" if _seq[0] == 'reimport' else None,
        bounds="graph g1 imported into the shared store and into the per-graph store, then %s; the resulting content of g1 must be the same in both "
               "stores (classes/values opaque tokens)" % " then ".join(_seq))
