"""C09 - a topology operation that fails leaves the model unchanged."""
from vf.registry import add
from harness.topo_steps import mk, ALL_OPS, ENC
for _k, _tiers in (('S3', ("quick", "thorough")), ('S1', ("thorough",)), ('S0', ("thorough",))):
    for _op in ALL_OPS:
        add("c09/%s/%s" % (_k, _op), mk('C09', _k, _op), timeout=900, tiers=_tiers, encodes=ENC,
            bounds="skeleton %s, one %s with symbolic arguments (names/sites/types/interfaces by symbolic index incl. unused and duplicate ones, "
                   "unbounded int capacities, unbounded symbolic model string); if the call raises the canonical snapshot equals the pre-snapshot" % (_k, _op))
