"""C09 - a topology operation that fails leaves the model unchanged."""
from vf.registry import add
from harness.topo_steps import mk, ALL_OPS, ENC
for _k, _tiers in (('S4', ("quick", "thorough")), ('S3', ("thorough",)), ('S1', ("thorough",)), ('S0', ("thorough",))):
    for _op in ALL_OPS:
        if _k == 'S4' and _op == 'add_network_service':
            add("c09/S4/add_network_service_two_interfaces", mk('C09', _k, _op), timeout=1500, tiers=("thorough",), encodes=ENC,
                bounds="skeleton S4, new service with 0..2 interfaces from 5 representative ones at symbolic positions")
        add("c09/%s/%s" % (_k, _op), mk('C09', _k, _op, small=(_k == 'S4')), timeout=900, tiers=_tiers, encodes=ENC,
            bounds="skeleton %s, one %s with symbolic arguments (names/sites/types/interfaces by symbolic index incl. unused and duplicate ones, "
                   "unbounded int capacities, unbounded symbolic model string); if the call raises the canonical snapshot equals the pre-snapshot" % (_k, _op))
