"""C09 - a topology operation that fails leaves the model unchanged."""
from vf.registry import add
from harness.topo_steps import mk, mk2, OPS2_FIRST, OPS2_SECOND, ALL_OPS, ENC
for _k, _tiers in (('S4', ("quick", "thorough")), ('S3', ("thorough",)), ('S1', ("thorough",)), ('S0', ("thorough",))):
    for _op in ALL_OPS:
        if _k == 'S4' and _op == 'add_link':
            add("c09/S4/add_link_three_interfaces", mk('C09', _k, _op), timeout=3000, tiers=("thorough",), encodes=ENC,
                bounds="skeleton S4, new link with 2..3 ends from 7 representative arguments (incl. a stale handle and a non-interface) at symbolic positions")
        if _k == 'S4' and _op in ('add_component', 'add_component_known_model') and 'C09' == 'C09':
            add("c09/S4/%s_all_names" % _op, mk('C09', _k, _op), timeout=3000, tiers=("thorough",), encodes=ENC,
                bounds="skeleton S4, %s over the full node / name pools (the quick harness uses reduced pools)" % _op)
        if _k == 'S4' and _op == 'add_network_service':
            add("c09/S4/add_network_service_two_interfaces", mk('C09', _k, _op), timeout=1500, tiers=("thorough",), encodes=ENC,
                bounds="skeleton S4, new service with 0..2 interfaces from 5 representative ones at symbolic positions")
        if _op == 'prune' and _k in ('S3', 'S4'):
            add("c09/%s/prune_all_subsets" % _k, mk('C09', _k, _op), timeout=2400, tiers=("thorough",), encodes=ENC,
                bounds="skeleton %s, prune() after marking every one of the 1024 subsets of ten elements (nodes, components, services, interfaces)" % _k)
        add("c09/%s/%s" % (_k, _op), mk('C09', _k, _op, small=(_k == 'S4' or _op == 'prune')), timeout=900, tiers=_tiers, encodes=ENC,
            bounds="skeleton %s, one %s with symbolic arguments (names/sites/types/interfaces by symbolic index incl. unused and duplicate ones, "
                   "unbounded int capacities, unbounded symbolic model string); if the call raises the canonical snapshot equals the pre-snapshot" % (_k, _op))


# thorough: every ordered pair of steps (reduced argument pools) from skeleton S3
for _o1 in OPS2_FIRST:
    for _o2 in OPS2_SECOND:
        if 'C09' == 'C08' and not (_o2.startswith('remove') or _o2.startswith('disconnect')):
            continue
        add("c09/S3/two_steps/%s+%s" % (_o1, _o2), mk2('C09', 'S3', _o1, _o2), timeout=900, tiers=("thorough",), encodes=ENC,
            bounds="skeleton S3, two consecutive operations (%s then %s) with independent symbolic arguments from reduced pools; the property is "
                   "checked after each step" % (_o1, _o2))
