"""C06 - neighbour and path queries return exactly what their contract describes.
Graph shapes are enumerated; node classes, edge relations and the requested relation(s)/class(es)
are symbolic strings (only equality matters), start/end nodes symbolic indices; a second graph
sharing the node ids lives in the same store."""
import itertools
from typing import List
import networkx as nx
from vf.prelude import R, begin
from vf.registry import harness, add
from fim.graph.networkx_property_graph import NetworkXPropertyGraph, NetworkXGraphImporter
from fim.graph.networkx_property_graph_disjoint import NetworkXPropertyGraphDisjoint, NetworkXGraphImporterDisjoint
from fim.graph.abc_property_graph import ABCPropertyGraph, PropertyGraphQueryException

P = "fim.graph.networkx_property_graph.NetworkXPropertyGraph."
ENC = (P + "get_first_neighbor", P + "get_first_and_second_neighbor", P + "get_nodes_on_shortest_path", P + "get_nodes_on_path_with_hops",
       "fim.graph.networkx_mixin.NetworkXMixin._drop_edges_not_of_type", "fim.graph.networkx_mixin.NetworkXMixin._get_first_neighbors_via",
       "fim.graph.networkx_mixin.NetworkXMixin._filter_nodes_by_label", "fim.graph.networkx_mixin.NetworkXMixin._find_node")
N = 4
IDS = ['n0', 'n1', 'n2', 'n3', 'n4']     # the fifth id is used by the 5-node path-with-hops shapes only
ALL_EDGES = [(0, 1), (0, 2), (0, 3), (1, 2), (1, 3), (2, 3)]
SHAPES = {
    'path': [(0, 1), (1, 2), (2, 3)],
    'star': [(0, 1), (0, 2), (0, 3)],
    'cycle4': [(0, 1), (1, 2), (2, 3), (0, 3)],
    'paw': [(0, 1), (1, 2), (0, 2), (2, 3)],
    'diamond': [(0, 1), (0, 2), (1, 2), (1, 3), (2, 3)],
    'k4': list(ALL_EDGES),
    'split': [(0, 1), (2, 3)],
    'tri_iso': [(0, 1), (1, 2), (0, 2)],
}
ALL_SHAPES = {}
for _k in range(len(ALL_EDGES) + 1):
    for _es in itertools.combinations(ALL_EDGES, _k):
        ALL_SHAPES['e' + ''.join('%d%d' % e for e in _es)] = list(_es)


def ab(xs):
    """every label is one of two one-letter strings (only equality matters to the queries)"""
    for x in xs:
        if x != 'a' and x != 'b':
            return False
    return True


def tok(k):
    """Label abstraction: class and relation labels are only ever compared for equality by the queries, and a symbolic
    `str` makes CrossHair enumerate the ways two strings can differ (lengths, characters) as separate paths.  Under
    symbolic execution a label is therefore an opaque token (a symbolic int); in the concrete replay the SAME harness maps
    token k to the real string 'L<k>', so only a counterexample that reproduces with real strings is reported.  Any use
    of a label other than ==/!= raises under tracing and is reported as an engine mismatch, never as a pass."""
    from crosshair.tracers import is_tracing
    return k if is_tracing() else 'L%d' % k


def toks(ks):
    return [tok(k) for k in ks]


def build(edges, cls, rels, disjoint=False, n=N):
    """store with the graph under test ('g1') and a decoy graph 'g2' with the same node ids, other labels"""
    g = nx.Graph()
    for i in range(n):
        g.add_node(100 + i, NodeID=IDS[i], Class=cls[i], Name='name%d' % i)
    for j, (a, b) in enumerate(edges):
        g.add_edge(100 + a, 100 + b, Class=rels[j])
    imp = NetworkXGraphImporterDisjoint() if disjoint else NetworkXGraphImporter()
    d = nx.Graph()
    for i in range(N):
        d.add_node(i, NodeID=IDS[i], Class='Decoy', Name='decoy%d' % i)
    for a, b in ALL_EDGES:
        d.add_edge(a, b, Class='decoy-rel')
    imp.storage.add_graph('g2', d)
    imp.storage.add_graph('g1', g)
    cls_ = NetworkXPropertyGraphDisjoint if disjoint else NetworkXPropertyGraph
    return cls_(graph_id='g1', importer=imp)


def adj(edges, rels, rel=None, n=N):
    out = {i: [] for i in range(n)}
    for j, (a, b) in enumerate(edges):
        if rel is None or rels[j] == rel:
            out[a].append(b)
            out[b].append(a)
    return out


def edge_rel(edges, rels, a, b):
    for j, (x, y) in enumerate(edges):
        if (x, y) == (a, b) or (x, y) == (b, a):
            return rels[j]
    return None


def idx(node_ids):
    return [IDS.index(x) for x in node_ids]


def _mk_first(edges, disjoint=False):
    NE = len(edges)

    def h_first(c0: int, c1: int, c2: int, c3: int, r0: int, r1: int, r2: int, r3: int, r4: int, r5: int,
                rel: int, lab: int, start: int) -> bool:
        """
        pre: 0 <= start < N
        post: R(_)
        """
        begin()
        # labels are opaque tokens (see tok()); separate parameters, not a List: CrossHair forks on aliasing between list elements
        cls, rels = toks([c0, c1, c2, c3]), toks([r0, r1, r2, r3, r4, r5][:NE])
        rel, lab = tok(rel), tok(lab)
        pg = build(edges, cls, rels, disjoint)
        got = pg.get_first_neighbor(node_id=IDS[start], rel=rel, node_label=lab)
        exp = [b for b in range(N) if b != start and edge_rel(edges, rels, start, b) == rel
               and edge_rel(edges, rels, start, b) is not None and cls[b] == lab]
        return sorted(idx(got)) == exp and len(got) == len(set(got))
    return h_first


def rel2_matters(edges, cls, rels, rel1, lab1, rel2, lab2, start):
    """some second-hop edge of a valid first hop leads to a node of the requested class over a relation other than rel2"""
    for b in range(N):
        r1 = edge_rel(edges, rels, start, b)
        if b == start or r1 is None or r1 != rel1 or cls[b] != lab1:
            continue
        for c in range(N):
            r2 = edge_rel(edges, rels, b, c)
            if c != b and c != start and r2 is not None and r2 != rel2 and cls[c] == lab2:
                return True
    return False


def _mk_second(edges, disjoint=False):
    NE = len(edges)

    def h_second(c0: int, c1: int, c2: int, c3: int, r0: int, r1: int, r2: int, r3: int, r4: int, r5: int,
                 rel1: int, lab1: int, rel2: int, lab2: int, start: int) -> bool:
        """
        pre: 0 <= start < N
        post: R(_)
        """
        begin()
        cls, rels = toks([c0, c1, c2, c3]), toks([r0, r1, r2, r3, r4, r5][:NE])
        rel1, lab1, rel2, lab2 = tok(rel1), tok(lab1), tok(rel2), tok(lab2)
        pg = build(edges, cls, rels, disjoint)
        got = pg.get_first_and_second_neighbor(node_id=IDS[start], rel1=rel1, node1_label=lab1, rel2=rel2, node2_label=lab2)
        exp = []
        for b in range(N):
            r1 = edge_rel(edges, rels, start, b)
            if b == start or r1 is None or r1 != rel1 or cls[b] != lab1:
                continue
            for c in range(N):
                r2 = edge_rel(edges, rels, b, c)
                if c == b or c == start or r2 is None or r2 != rel2 or cls[c] != lab2:
                    continue
                exp.append([b, c])
        g = sorted(idx(p) for p in got)
        for p in got:
            if len(p) != 2:
                return False
        return g == sorted(exp)
    return h_second


def bfs_len(a, z, nbrs):
    """number of nodes on a shortest path a..z, 0 if none"""
    if a == z:
        return 1
    seen, frontier, d = {a}, [a], 1
    while frontier:
        d += 1
        nxt = []
        for u in frontier:
            for v in nbrs[u]:
                if v not in seen:
                    if v == z:
                        return d
                    seen.add(v)
                    nxt.append(v)
        frontier = nxt
    return 0


def _mk_shortest(edges, with_rel, disjoint=False):
    NE = len(edges)

    def h_shortest(r0: int, r1: int, r2: int, r3: int, r4: int, r5: int, rel: int, a: int, z: int) -> bool:
        """
        pre: 0 <= a < N and 0 <= z < N
        post: R(_)
        """
        begin()
        rels = toks([r0, r1, r2, r3, r4, r5][:NE])
        rel = tok(rel)
        pg = build(edges, ['C'] * N, rels, disjoint)
        got = pg.get_nodes_on_shortest_path(node_a=IDS[a], node_z=IDS[z], rel=rel if with_rel else None)
        nbrs = adj(edges, rels, rel if with_rel else None)
        exp_len = bfs_len(a, z, nbrs)
        if exp_len == 0:
            return got == []
        p = idx(got)
        if len(p) != exp_len or p[0] != a or p[-1] != z or len(set(p)) != len(p):
            return False
        for u, v in zip(p, p[1:]):
            if v not in nbrs[u]:
                return False
        return True
    return h_shortest


def simple_paths(a, z, nbrs):
    out = []

    def rec(path):
        u = path[-1]
        if u == z:
            out.append(list(path))
            return
        for v in nbrs[u]:
            if v not in path:
                path.append(v)
                rec(path)
                path.pop()
    if a != z:
        rec([a])
    else:
        out.append([a])   # the trivial path
    return out


def induced_acyclic(path, edges):
    n = len(path)
    m = sum(1 for (x, y) in edges if x in path and y in path)
    return m == n - 1     # connected (it is a path) and |E| = |V|-1  <=> tree


def _mk_hops(edges, disjoint=False):
    def h_hops(a: int, z: int, h0: int, h1: int, nh: int) -> bool:
        """
        pre: 0 <= a < N and 0 <= z < N and 0 <= h0 < N and 0 <= h1 < N and 0 <= nh <= 2
        post: R(_)
        """
        begin()
        pg = build(edges, ['C'] * N, ['r'] * len(edges), disjoint)
        hops = [IDS[h0], IDS[h1]][:nh]
        got = pg.get_nodes_on_path_with_hops(node_a=IDS[a], node_z=IDS[z], hops=hops)
        nbrs = adj(edges, None)
        cands = [p for p in simple_paths(a, z, nbrs) if induced_acyclic(p, edges) and all(IDS.index(h) in p for h in hops)]
        if not cands:
            return got == []
        best = min(len(p) for p in cands)
        p = idx(got)
        return len(p) == best and p in cands
    return h_hops


def _mk_hops5(edges):
    """five nodes: the smallest size at which two chord-free paths of different length join the same end nodes"""
    def h_hops5(a: int, z: int, h0: int, nh: int) -> bool:
        """
        pre: 0 <= a < 5 and 0 <= z < 5 and 0 <= h0 < 5 and 0 <= nh <= 1
        post: R(_)
        """
        begin()
        pg = build(edges, ['C'] * 5, ['r'] * len(edges), False, 5)
        hops = [IDS[h0]][:nh]
        got = pg.get_nodes_on_path_with_hops(node_a=IDS[a], node_z=IDS[z], hops=hops)
        nbrs = adj(edges, None, None, 5)
        cands = [p for p in simple_paths(a, z, nbrs) if induced_acyclic(p, edges) and all(IDS.index(h) in p for h in hops)]
        if not cands:
            return got == []
        best = min(len(p) for p in cands)
        p = idx(got)
        return len(p) == best and p in cands
    return h_hops5


# a 5-cycle (two chord-free routes of 3 and 4 nodes between n0 and n2) with the long route first / last in link creation order,
# and the same with a pendant-free chord-less 'house' variant
SHAPES5 = {
    'c5_long_first': [(0, 3), (3, 4), (4, 2), (0, 1), (1, 2)],
    'c5_short_first': [(0, 1), (1, 2), (0, 3), (3, 4), (4, 2)],
    'theta_long_first': [(0, 3), (3, 4), (4, 2), (0, 1), (1, 2), (1, 4)],
}
for _n5, _e5 in SHAPES5.items():
    add("path_with_hops5/" + _n5, _mk_hops5(_e5), timeout=600, encodes=ENC,
        bounds="5-node shape %s %s: end nodes and 0..1 hop symbolic indices; shortest among the chord-free paths containing the hop" % (_n5, _e5))


def _register(name, edges, tiers):
    add("first_neighbor/" + name, _mk_first(edges), timeout=400, tiers=tiers, encodes=ENC,
        bounds="shape %s %s: class of each of 4 nodes, relation of each edge, requested relation and class symbolic labels (opaque tokens, unbounded domain; real strings in replay), start node symbolic" % (name, edges))
    add("first_and_second_neighbor/" + name, _mk_second(edges), timeout=900, tiers=tiers, encodes=ENC,
        bounds="shape %s %s: node classes, edge relations, both requested relations and classes symbolic labels (opaque tokens, unbounded domain; real strings in replay), start node symbolic" % (name, edges))
    add("shortest_path_any/" + name, _mk_shortest(edges, False), timeout=300, tiers=tiers, encodes=ENC,
        bounds="shape %s %s: end nodes symbolic, mixed symbolic relations present, no relation requested" % (name, edges))
    add("shortest_path_rel/" + name, _mk_shortest(edges, True), timeout=900, tiers=tiers, encodes=ENC,
        bounds="shape %s %s: relation of each edge and the requested relation symbolic labels (opaque tokens, unbounded domain; real strings in replay), end nodes symbolic" % (name, edges))
    add("path_with_hops/" + name, _mk_hops(edges), timeout=600, tiers=tiers, encodes=ENC,
        bounds="shape %s %s: end nodes and 0..2 hops symbolic indices" % (name, edges))


for _name, _edges in SHAPES.items():
    _register(_name, _edges, ("quick", "thorough") if _name in ('path', 'paw', 'diamond', 'split') else ("thorough",))

# per-graph store flavour on two shapes
for _name in ('paw', 'split'):
    add("disjoint/first_and_second_neighbor/" + _name, _mk_second(SHAPES[_name], True), timeout=900, encodes=ENC,
        bounds="per-graph store, shape %s: as first_and_second_neighbor" % _name)
    add("disjoint/shortest_path_rel/" + _name, _mk_shortest(SHAPES[_name], True, True), timeout=900, encodes=ENC,
        bounds="per-graph store, shape %s: as shortest_path_rel" % _name)


# thorough: every labelled simple graph on 4 nodes (64 edge sets) for the two queries whose cost does not grow with the edge count,
# and every shape with <= 4 edges for the relation-sensitive ones
_named = {tuple(sorted(v)) for v in SHAPES.values()}
for _name, _edges in ALL_SHAPES.items():
    if tuple(sorted(_edges)) in _named:
        continue
    add("all_shapes/first_neighbor/" + _name, _mk_first(_edges), timeout=600, tiers=("thorough",), encodes=ENC,
        bounds="shape %s: as first_neighbor" % (_edges,))
    add("all_shapes/shortest_path_any/" + _name, _mk_shortest(_edges, False), timeout=600, tiers=("thorough",), encodes=ENC,
        bounds="shape %s: as shortest_path_any" % (_edges,))
    add("all_shapes/path_with_hops/" + _name, _mk_hops(_edges), timeout=900, tiers=("thorough",), encodes=ENC,
        bounds="shape %s: as path_with_hops" % (_edges,))
    if len(_edges) <= 4:
        add("all_shapes/shortest_path_rel/" + _name, _mk_shortest(_edges, True), timeout=900, tiers=("thorough",), encodes=ENC,
            bounds="shape %s: as shortest_path_rel" % (_edges,))
        add("all_shapes/first_and_second_neighbor/" + _name, _mk_second(_edges), timeout=1200, tiers=("thorough",), encodes=ENC,
            bounds="shape %s: as first_and_second_neighbor" % (_edges,))
