"""C18 - instance sizing (sufficient, Pareto-minimal, largest otherwise) over the live
catalogue with the request (core, ram, disk) as unbounded symbolic ints, cut into slabs along the
catalogue's own thresholds; component generation against the live component catalogue."""
import json
import os
from typing import List
from vf.prelude import R, begin
from vf.registry import harness, add
from fim.slivers.instance_catalog import InstanceCatalog
from fim.slivers.capacities_labels import Capacities
import fim.slivers.instance_catalog as _icmod

ENC_I = ("fim.slivers.instance_catalog.InstanceCatalog.map_capacities_to_instance",
         "fim.slivers.instance_catalog.InstanceCatalog.get_instance_capacities",
         "fim.slivers.instance_catalog.InstanceCatalog.list_instances",
         "fim.slivers.capacities_labels.Capacities.__lt__")
_RAW = json.load(open(os.path.join(os.path.dirname(_icmod.__file__), 'data', 'instance_sizes.json')))
CAT = [(k, v['core'], v['ram'], v['disk']) for k, v in _RAW.items()]
CORES = sorted({e[1] for e in CAT})
# core intervals: [0, c0], (c0, c1], ..., (c_last, inf)
CINT = [(-1, CORES[0])] + [(CORES[i], CORES[i + 1]) for i in range(len(CORES) - 1)] + [(CORES[-1], None)]


RAMS = sorted({e[2] for e in CAT})
DISKS = sorted({e[3] for e in CAT})
RINT = [(-1, RAMS[0])] + [(RAMS[i], RAMS[i + 1]) for i in range(len(RAMS) - 1)] + [(RAMS[-1], None)]
DINT = [(-1, DISKS[0])] + [(DISKS[i], DISKS[i + 1]) for i in range(len(DISKS) - 1)] + [(DISKS[-1], None)]
NR, ND = len(RINT), len(DINT)


def in_regions(vals, ints):
    for v, (lo, hi) in zip(vals, ints):
        if not (v > lo and (hi is None or v <= hi)):
            return False
    return True


def _check_one(core, ram, disk):
    ic = InstanceCatalog()
    name = ic.map_capacities_to_instance(cap=Capacities(core=core, ram=ram, disk=disk))
    got = ic.get_instance_capacities(instance_type=name)
    if got is None:
        return False
    gc, gr, gd = got.core, got.ram, got.disk
    any_suff = False
    for (k, c, r, d) in CAT:
        if c >= core and r >= ram and d >= disk:
            any_suff = True
            # no other satisfying size is smaller-or-equal in every dimension
            if (c <= gc and r <= gr and d <= gd) and (c, r, d) != (gc, gr, gd):
                return False
    if any_suff:
        return gc >= core and gr >= ram and gd >= disk
    # nothing suffices: the largest size
    for (k, c, r, d) in CAT:
        if c > gc or r > gr or d > gd:
            return False
    return True


def _mk_slab(lo, hi):
    def h_size(core: int, rams: List[int], disks: List[int]) -> bool:
        """
        pre: core > lo and (hi is None or core <= hi)
        pre: len(rams) == NR and len(disks) == ND
        pre: in_regions(rams, RINT) and in_regions(disks, DINT)
        post: R(_)
        """
        _closure = (lo, hi)
        # one symbolic representative per threshold region of ram and of disk: every filter comparison is then
        # decided by the preconditions, so this is a single path covering all NR x ND regions of the slab
        for ram in rams:
            for disk in disks:
                if not _check_one(core, ram, disk):
                    return False
        return True
    return h_size


_QUICK = {0, 1, 2, 5, 9, 16, 24, len(CINT) - 3, len(CINT) - 2, len(CINT) - 1}
for _i, (_lo, _hi) in enumerate(CINT):
    add("instance_sizing/core_%s_%s" % (_lo + 1, _hi if _hi is not None else "inf"), _mk_slab(_lo, _hi), timeout=1200, per_path_timeout=1000,
        tiers=("quick", "thorough") if _i in _QUICK else ("thorough",), encodes=ENC_I,
        bounds="requests with core in (%s, %s] x every one of the %d ram and %d disk threshold regions (incl. the unbounded ones), each an unbounded "
               "symbolic int constrained only to its region; live catalogue of %d sizes" % (_lo, _hi if _hi is not None else "inf", NR, ND, len(CAT)))


@harness("instance_names_agree", timeout=120, encodes=ENC_I,
         bounds="every catalogue entry (concrete): name <-> capacities, list_instances == file, unknown name -> None")
def h_names(dummy: bool) -> bool:
    """
    post: R(_)
    """
    ic = InstanceCatalog()
    li = ic.list_instances()
    if sorted(li.keys()) != sorted(_RAW.keys()):
        return False
    for (k, c, r, d) in CAT:
        cap = ic.get_instance_capacities(instance_type=k)
        if cap is None or (cap.core, cap.ram, cap.disk) != (c, r, d):
            return False
        if k != 'fabric.c%d.m%d.d%d' % (c, r, d):
            return False
    return ic.get_instance_capacities(instance_type='fabric.c0.m0.d0') is None


# ------------------------------------------------------------------ component catalogue
import fim.slivers.component_catalog as _ccmod
from fim.slivers.component_catalog import ComponentCatalog, CatalogException
from fim.slivers.attached_components import ComponentType
from fim.slivers.interface_info import InterfaceType
from fim.slivers.network_service import ServiceType
from fim.slivers.capacities_labels import Labels

ENC_C = ("fim.slivers.component_catalog.ComponentCatalog.generate_component",
         "fim.slivers.component_catalog.ComponentCatalog.populate_catalog_models_and_types",
         "fim.slivers.component_catalog.ComponentCatalog.component_details", "fim.slivers.component_catalog.ComponentCatalog.search_catalog")
CCAT = json.load(open(os.path.join(os.path.dirname(_ccmod.__file__), 'data', 'component_catalog.json')))
BDF = ['0000:41:00.0', '0000:41:00.1', '0000:a1:00.2']
MACS = ['00:11:22:33:44:55', '0a:0b:0c:0d:0e:0f']


def _mk_comp(idx):
    entry = CCAT[idx]
    ports = list(entry.get('Interfaces', {}).keys())
    NPORT = len(ports)
    also = entry.get('AlsoModels') or []
    ctype = ComponentType[entry['Type']]

    def h_comp(shape: int, ids: List[str], nsid: str, give_ids: bool, give_ns: bool, give_parent: bool,
               nb: List[int]) -> bool:
        """
        pre: 0 <= shape <= 2 and len(ids) == 2 and len(nb) == 2
        pre: all(len(x) <= 2 for x in ids) and len(nsid) <= 2
        pre: all(0 <= x <= 3 for x in nb)
        post: R(_)
        """
        begin()
        mi = [0, 1]   # a different MAC per port, so a label landing on the wrong interface is visible
        _closure = (NPORT,)
        cc = ComponentCatalog()
        kw = {}
        if shape == 0:
            mt = [m for m, c in _ccmod.ComponentModelTypeMap.items() if c is entry or c == entry][0]
            kw['model_type'] = mt
        elif shape == 1 or not also:
            kw['ctype'] = ctype
            kw['model'] = entry['Model']
        else:
            kw['ctype'] = ctype
            kw['model'] = also[0]
        labels = None
        if give_ids and NPORT:
            kw['interface_node_ids'] = [ids[i] for i in range(NPORT)]
            labels = []
            for i in range(NPORT):
                # nb == 0: scalar bdf; nb == k > 0: list of k bdfs (-> k units)
                if nb[i] == 0:
                    labels.append(Labels(bdf=BDF[0], mac=MACS[mi[i]]))
                else:
                    labels.append(Labels(bdf=BDF[:nb[i]], mac=[MACS[mi[i]]] * nb[i]))
            kw['interface_labels'] = labels
        if give_ns:
            kw['ns_node_id'] = nsid
        if give_parent:
            kw['parent_name'] = 'worker1'
        cs = cc.generate_component(name='comp1', **kw)
        if cs.get_name() != 'comp1' or cs.get_type() != ctype or cs.get_model() != entry['Model'] or cs.get_details() != entry['Details']:
            return False
        if NPORT == 0:
            return cs.network_service_info is None
        nss = list(cs.network_service_info.network_services.values())
        if len(nss) != 1:
            return False
        ns = nss[0]
        suffix, nst = ('-l2p4', ServiceType.P4) if ctype == ComponentType.FPGA else ('-l2ovs', ServiceType.OVS)
        if ns.get_type() != nst or ns.get_name() != ('worker1-' if give_parent else '') + 'comp1' + suffix:
            return False
        if give_ns and ns.node_id != nsid:
            return False
        ifs = ns.interface_info.interfaces
        if list(ifs.keys()) != ['comp1-' + p for p in ports]:
            return False
        for i, p in enumerate(ports):
            isl = ifs['comp1-' + p]
            kind = InterfaceType.SharedPort if ctype == ComponentType.SharedNIC else InterfaceType.DedicatedPort
            if isl.get_type() != kind:
                return False
            units = 1
            if labels is not None:
                if isl.node_id != ids[i]:
                    return False
                lab = isl.get_labels()
                if lab.mac != labels[i].mac or lab.bdf != labels[i].bdf:
                    return False
                if nb[i] > 0:
                    units = nb[i]
                    if lab.local_name != [p] * nb[i]:
                        return False
                elif lab.local_name != p:
                    return False
            elif isl.get_labels().local_name != p or isl.node_id is None:
                return False
            cap = isl.get_capacities()
            if cap.unit != units:
                return False
            if cap.bw != (0 if ctype == ComponentType.SharedNIC else int(entry['Interfaces'][p])):
                return False
        return True
    return h_comp


for _i, _e in enumerate(CCAT):
    add("component/%s/%s" % (_e['Type'], _e['Model']), _mk_comp(_i), timeout=400, encodes=ENC_C,
        bounds="catalogue entry %s/%s x naming shape {model_type, ctype+model, AlsoModels} x ids/labels given or not (ids symbolic str len<=2, "
               "bdf scalar or list of 1..3 -> unit count, distinct mac per port) x ns id given (symbolic str) x parent name" % (_e['Type'], _e['Model']))


@harness("component_unknown_model_rejected", timeout=300, encodes=ENC_C,
         bounds="component type by symbolic index over all types, model an UNBOUNDED symbolic string different from every catalogued model/alias of that type")
def h_unknown(ti: int, model: str) -> bool:
    """
    pre: 0 <= ti < len(list(ComponentType))
    post: R(_)
    """
    ctype = list(ComponentType)[ti]
    known = []
    for c in CCAT:
        if c['Type'] == str(ctype):
            known.append(c['Model'])
            known += c.get('AlsoModels') or []
    try:
        cs = ComponentCatalog().generate_component(name='comp1', ctype=ctype, model=model)
    except CatalogException:
        return model not in known
    return model in known and cs.get_type() == ctype


@harness("component_enumeration_lists_catalogue", timeout=60, encodes=ENC_C,
         bounds="concrete: the combined type-model enumeration vs the catalogue file")
def h_enum(dummy: bool) -> bool:
    """
    post: R(_)
    """
    m = _ccmod.ComponentModelTypeMap
    if len(m) != len(CCAT) or len(list(_ccmod.ComponentModelType)) != len(CCAT):
        return False
    for i, c in enumerate(CCAT):
        hits = [k for k, v in m.items() if v['Type'] == c['Type'] and v['Model'] == c['Model']]
        if len(hits) != 1:
            return False
        exp = (c['Type'] + '_' + c['Model']).replace(' ', '_').replace('-', '_')
        if hits[0].name != exp or m[hits[0]] != c:
            return False
    return True
