"""C17 - sliver comparison reports exactly the differences (edit script read off the symbolic inputs)."""
import copy
from typing import List
from vf.prelude import R, begin
from vf.registry import harness
from fim.slivers.network_node import NodeSliver, NodeType
from fim.slivers.attached_components import ComponentSliver, AttachedComponentsInfo, ComponentType
from fim.slivers.network_service import NetworkServiceSliver, NetworkServiceInfo, ServiceType
from fim.slivers.interface_info import InterfaceSliver, InterfaceInfo, InterfaceType
from fim.slivers.capacities_labels import Capacities, Labels
from fim.slivers.json_data import UserData
from fim.slivers.topology_diff import WhatsModifiedFlag, TopologyDiff

ENC = ("fim.slivers.network_node.NodeSliver.diff", "fim.slivers.network_service.NetworkServiceSliver.diff",
       "fim.slivers.interface_info.InterfaceSliver.diff", "fim.slivers.base_sliver.BaseSliver.prop_diff",
       "fim.slivers.base_sliver.BaseSliver._dict_diff", "fim.slivers.base_sliver.BaseSliver._dict_common",
       "fim.slivers.base_sliver.BaseSliver.__eq__", "fim.slivers.base_sliver.BaseSliver.__hash__",
       "fim.slivers.capacities_labels.Capacities.__eq__", "fim.slivers.capacities_labels.Labels.__eq__")
UD = [None, {'k': 1, 'j': [2]}, {'k': 2, 'j': [2]}, '{"j": [2], "k": 1}']   # 3: the VALUE of 1 spelled as JSON text, other key order
UD_VALUE = [0, 1, 2, 1]


def props(s, core, hascap, ln, haslab, ud):
    """apply tracked properties; ud: 0 none, 1 value A, 2 value B (a fresh object every time)"""
    if hascap:
        s.set_capacities(Capacities(core=core))
    if haslab:
        s.set_labels(Labels(local_name=ln))
    if ud:
        s.set_user_data(UserData(dict(UD[ud]) if isinstance(UD[ud], dict) else UD[ud]))
    return s


def exp_flags(c0, hc0, l0, hl0, u0, c1, hc1, l1, hl1, u1):
    f = WhatsModifiedFlag.NONE
    if hl0 != hl1 or (hl0 and l0 != l1):
        f |= WhatsModifiedFlag.LABELS
    if hc0 != hc1 or (hc0 and c0 != c1):
        f |= WhatsModifiedFlag.CAPACITIES
    if UD_VALUE[u0] != UD_VALUE[u1]:
        f |= WhatsModifiedFlag.USER_DATA
    return f


def mk_if(name, itype=InterfaceType.SharedPort):
    i = InterfaceSliver()
    i.set_name(name)
    i.set_type(itype)
    i.node_id = 'id-' + name
    return i


def mk_ns(name, ifnames, stype=ServiceType.L2Bridge, with_info=True):
    ns = NetworkServiceSliver()
    ns.set_name(name)
    ns.set_type(stype)
    ns.node_id = 'id-' + name
    if ifnames or with_info:
        ii = InterfaceInfo()
        for n in ifnames:
            ii.add_interface(mk_if(n))
        ns.interface_info = ii
    return ns


def mk_comp(name, ctype=ComponentType.GPU):
    c = ComponentSliver()
    c.set_name(name)
    c.set_type(ctype)
    c.node_id = 'id-' + name
    return c


def mk_node(comps, svcs, empty_infos):
    n = NodeSliver()
    n.set_name('node1')
    n.set_type(NodeType.VM)
    n.node_id = 'id-node1'
    if comps or empty_infos:
        aci = AttachedComponentsInfo()
        for c in comps:
            aci.add_device(c)
        n.attached_components_info = aci
    if svcs or empty_infos:
        nsi = NetworkServiceInfo()
        for s in svcs:
            nsi.add_network_service(s)
        n.network_service_info = nsi
    return n


def names(slivers):
    return sorted(s.resource_name for s in slivers)


def empty_diff(d):
    return d is None


CN = ['c0', 'c1']
SN = ['s0', 's1']


@harness("node_added_removed", timeout=400, encodes=ENC, finding="node_services",
         bounds="name universe {c0,c1} components x {s0,s1} node-level services; presence bit of each on each side (8 bits); "
                "empty-vs-absent container on each side (2 bits); all tracked properties equal")
def h_node_addrem(o: List[bool], n: List[bool], eo: bool, en: bool) -> bool:
    """
    pre: len(o) == 4 and len(n) == 4
    post: R(_)
    """
    old = mk_node([mk_comp(CN[i]) for i in range(2) if o[i]], [mk_ns(SN[i], ['p1']) for i in range(2) if o[2 + i]], eo)
    new = mk_node([mk_comp(CN[i]) for i in range(2) if n[i]], [mk_ns(SN[i], ['p1']) for i in range(2) if n[2 + i]], en)
    d = old.diff(new)
    r = new.diff(old)
    ca = [CN[i] for i in range(2) if n[i] and not o[i]]
    cr = [CN[i] for i in range(2) if o[i] and not n[i]]
    sa = [SN[i] for i in range(2) if n[2 + i] and not o[2 + i]]
    sr = [SN[i] for i in range(2) if o[2 + i] and not n[2 + i]]
    if not (ca or cr or sa or sr):
        return d is None and r is None
    if d is None or r is None:
        return False
    if names(d.added.components) != ca or names(d.removed.components) != cr:
        return False
    if names(d.added.services) != sa or names(d.removed.services) != sr:
        return False
    # what is added old->new is what is removed new->old
    if names(r.removed.components) != ca or names(r.added.components) != cr:
        return False
    if names(r.removed.services) != sa or names(r.added.services) != sr:
        return False
    return (d.modified.nodes == [] and d.modified.components == [] and d.modified.services == []
            and len(d.added.nodes) == 0 and len(d.added.interfaces) == 0)


def _flag_case(kind, c0, hc0, l0, hl0, u0, c1, hc1, l1, hl1, u1):
    co, cn = mk_comp('c0'), mk_comp('c0')
    so, sn = mk_ns('s0', ['p1']), mk_ns('s0', ['p1'])
    old = mk_node([co, mk_comp('c1')], [so, mk_ns('s1', [])], False)
    new = mk_node([cn, mk_comp('c1')], [sn, mk_ns('s1', [])], False)
    tgt = {'node': (old, new), 'comp': (co, cn), 'svc': (so, sn)}[kind]
    props(tgt[0], c0, hc0, l0, hl0, u0)
    props(tgt[1], c1, hc1, l1, hl1, u1)
    d = old.diff(new)
    exp = exp_flags(c0, hc0, l0, hl0, u0, c1, hc1, l1, hl1, u1)
    if exp == WhatsModifiedFlag.NONE:
        return d is None
    if d is None:
        return False
    lists = {'node': d.modified.nodes, 'comp': d.modified.components, 'svc': d.modified.services}
    for k, lst in lists.items():
        if k == kind:
            if len(lst) != 1 or lst[0][0].resource_name != tgt[0].resource_name or lst[0][1] != exp:
                return False
        elif lst != []:
            return False
    return (len(d.added.components) == 0 and len(d.removed.components) == 0 and len(d.added.services) == 0
            and len(d.removed.services) == 0)


FLAG_B = ("both sides present; capacities (symbolic int core, presence bit), labels (symbolic str len<=1, presence bit), "
          "user data in {none, A, B, A spelled as JSON text with another key order} incl. equal-valued distinct objects, on each side")


@harness("node_self_modified_flags", timeout=300, encodes=ENC, finding="userdata", bounds="node itself: " + FLAG_B)
def h_node_flags(c0: int, hc0: bool, l0: str, hl0: bool, u0: int, c1: int, hc1: bool, l1: str, hl1: bool, u1: int) -> bool:
    """
    pre: c0 >= 0 and c1 >= 0 and len(l0) <= 1 and len(l1) <= 1
    pre: 0 <= u0 <= 3 and 0 <= u1 <= 3
    post: R(_)
    """
    return _flag_case('node', c0, hc0, l0, hl0, u0, c1, hc1, l1, hl1, u1)


@harness("component_modified_flags", timeout=300, encodes=ENC, finding="userdata", bounds="common component: " + FLAG_B)
def h_comp_flags(c0: int, hc0: bool, l0: str, hl0: bool, u0: int, c1: int, hc1: bool, l1: str, hl1: bool, u1: int) -> bool:
    """
    pre: c0 >= 0 and c1 >= 0 and len(l0) <= 1 and len(l1) <= 1
    pre: 0 <= u0 <= 3 and 0 <= u1 <= 3
    post: R(_)
    """
    return _flag_case('comp', c0, hc0, l0, hl0, u0, c1, hc1, l1, hl1, u1)


@harness("node_service_modified_flags", timeout=300, encodes=ENC, finding="userdata", bounds="common node-level service: " + FLAG_B)
def h_svc_flags(c0: int, hc0: bool, l0: str, hl0: bool, u0: int, c1: int, hc1: bool, l1: str, hl1: bool, u1: int) -> bool:
    """
    pre: c0 >= 0 and c1 >= 0 and len(l0) <= 1 and len(l1) <= 1
    pre: 0 <= u0 <= 3 and 0 <= u1 <= 3
    post: R(_)
    """
    return _flag_case('svc', c0, hc0, l0, hl0, u0, c1, hc1, l1, hl1, u1)


IFN = ['p0', 'p1']
SUBN = ['v0', 'v1']


def mk_ded(name, subs, empty_info):
    i = mk_if(name, InterfaceType.DedicatedPort)
    if subs or empty_info:
        ii = InterfaceInfo()
        for s in subs:
            ii.add_interface(mk_if(s, InterfaceType.SubInterface))
        i.interface_info = ii
    return i


@harness("service_interfaces_added_removed", timeout=400, encodes=ENC,
         bounds="service with interfaces {p0,p1} (presence bit per side) where p0 is a dedicated port with sub-interfaces {v0,v1} "
                "(presence bit per side), empty-vs-absent containers")
def h_ns_addrem(o: List[bool], n: List[bool], so: List[bool], sn: List[bool], eo: bool, en: bool) -> bool:
    """
    pre: len(o) == 2 and len(n) == 2 and len(so) == 2 and len(sn) == 2
    post: R(_)
    """
    def build(bits, sbits, e):
        ns = mk_ns('svc', [], with_info=e)
        ifs = []
        if bits[0]:
            ifs.append(mk_ded('p0', [SUBN[i] for i in range(2) if sbits[i]], e))
        if bits[1]:
            ifs.append(mk_if('p1'))
        if ifs:
            ns.interface_info = InterfaceInfo()
            for i in ifs:
                ns.interface_info.add_interface(i)
        return ns
    old, new = build(o, so, eo), build(n, sn, en)
    d = old.diff(new)
    r = new.diff(old)
    ia = [IFN[i] for i in range(2) if n[i] and not o[i]]
    ir = [IFN[i] for i in range(2) if o[i] and not n[i]]
    subs_changed = o[0] and n[0] and (so[0] != sn[0] or so[1] != sn[1])
    if not (ia or ir or subs_changed):
        return d is None and r is None
    if d is None or r is None:
        return False
    if names(d.added.interfaces) != ia or names(d.removed.interfaces) != ir:
        return False
    if names(r.added.interfaces) != ir or names(r.removed.interfaces) != ia:
        return False
    if subs_changed:
        if len(d.modified.interfaces) != 1 or d.modified.interfaces[0][0].resource_name != 'p0':
            return False
        if d.modified.interfaces[0][1] != WhatsModifiedFlag.SUB_INTERFACES:
            return False
    elif d.modified.interfaces != []:
        return False
    return d.modified.services == [] and len(d.added.services) == 0 and len(d.added.components) == 0


@harness("service_interface_modified_flags", timeout=300, encodes=ENC, finding="userdata", bounds="common interface of a service: " + FLAG_B)
def h_if_flags(c0: int, hc0: bool, l0: str, hl0: bool, u0: int, c1: int, hc1: bool, l1: str, hl1: bool, u1: int) -> bool:
    """
    pre: c0 >= 0 and c1 >= 0 and len(l0) <= 1 and len(l1) <= 1
    pre: 0 <= u0 <= 3 and 0 <= u1 <= 3
    post: R(_)
    """
    old, new = mk_ns('svc', ['p0', 'p1']), mk_ns('svc', ['p0', 'p1'])
    props(old.interface_info.get_interface('p0'), c0, hc0, l0, hl0, u0)
    props(new.interface_info.get_interface('p0'), c1, hc1, l1, hl1, u1)
    d = old.diff(new)
    exp = exp_flags(c0, hc0, l0, hl0, u0, c1, hc1, l1, hl1, u1)
    if exp == WhatsModifiedFlag.NONE:
        return d is None
    if d is None or len(d.modified.interfaces) != 1:
        return False
    return (d.modified.interfaces[0][0].resource_name == 'p0' and d.modified.interfaces[0][1] == exp
            and d.modified.services == [] and len(d.added.interfaces) == 0 and len(d.removed.interfaces) == 0)


@harness("interface_subinterfaces_diff", timeout=300, encodes=ENC,
         bounds="dedicated port with sub-interfaces {v0,v1}: presence bit per side; v0 capacities symbolic int per side")
def h_if_sub(so: List[bool], sn: List[bool], c0: int, c1: int, eo: bool, en: bool) -> bool:
    """
    pre: len(so) == 2 and len(sn) == 2 and c0 >= 0 and c1 >= 0
    post: R(_)
    """
    old = mk_ded('p0', [SUBN[i] for i in range(2) if so[i]], eo)
    new = mk_ded('p0', [SUBN[i] for i in range(2) if sn[i]], en)
    if so[0]:
        old.interface_info.get_interface('v0').set_capacities(Capacities(bw=c0))
    if sn[0]:
        new.interface_info.get_interface('v0').set_capacities(Capacities(bw=c1))
    d = old.diff(new)
    r = new.diff(old)
    ia = [SUBN[i] for i in range(2) if sn[i] and not so[i]]
    ir = [SUBN[i] for i in range(2) if so[i] and not sn[i]]
    mod = so[0] and sn[0] and c0 != c1
    if not (ia or ir or mod):
        return d is None and r is None
    if d is None or r is None:
        return False
    if names(d.added.interfaces) != ia or names(d.removed.interfaces) != ir:
        return False
    if names(r.added.interfaces) != ir or names(r.removed.interfaces) != ia:
        return False
    if mod:
        return (len(d.modified.interfaces) == 1 and d.modified.interfaces[0][0].resource_name == 'v0'
                and d.modified.interfaces[0][1] == WhatsModifiedFlag.CAPACITIES)
    return d.modified.interfaces == []


@harness("smartnic_component_subinterface_flag", timeout=300, encodes=ENC,
         bounds="common SmartNIC component whose service has ports {p0,p1}: presence bit per side; p0 labels symbolic per side")
def h_smartnic(o: List[bool], n: List[bool], l0: str, l1: str) -> bool:
    """
    pre: len(o) == 2 and len(n) == 2 and len(l0) <= 1 and len(l1) <= 1
    post: R(_)
    """
    def build(bits, lab):
        c = mk_comp('nic1', ComponentType.SmartNIC)
        ns = mk_ns('nic1-l2ovs', [IFN[i] for i in range(2) if bits[i]], ServiceType.OVS)
        if bits[0]:
            ns.interface_info.get_interface('p0').set_labels(Labels(local_name=lab))
        nsi = NetworkServiceInfo()
        nsi.add_network_service(ns)
        c.set_network_service_info(nsi)
        return mk_node([c], [], False)
    old, new = build(o, l0), build(n, l1)
    d = old.diff(new)
    changed = o[0] != n[0] or o[1] != n[1] or (o[0] and n[0] and l0 != l1)
    if not changed:
        return d is None
    if d is None or len(d.modified.components) != 1:
        return False
    return (d.modified.components[0][0].resource_name == 'nic1'
            and d.modified.components[0][1] == WhatsModifiedFlag.SUB_INTERFACES
            and len(d.added.components) == 0 and len(d.removed.components) == 0)


@harness("identical_copy_no_diff", timeout=300, encodes=ENC,
         bounds="node with 2 components (one SmartNIC with 2 ports), 2 services with interfaces, symbolic capacities/labels/user data; "
                "compared with a deep copy of itself")
def h_copy(c0: int, l0: str, u0: int, c1: int, l1: str, u1: int) -> bool:
    """
    pre: c0 >= 0 and c1 >= 0 and len(l0) <= 1 and len(l1) <= 1
    pre: 0 <= u0 <= 3 and 0 <= u1 <= 3
    post: R(_)
    """
    nic = mk_comp('nic1', ComponentType.SmartNIC)
    nsi = NetworkServiceInfo()
    nsi.add_network_service(mk_ns('nic1-ovs', ['p0', 'p1'], ServiceType.OVS))
    nic.set_network_service_info(nsi)
    gpu = props(mk_comp('gpu1'), c0, True, l0, True, u0)
    svc = props(mk_ns('s0', ['q0']), c1, True, l1, True, u1)
    props(svc.interface_info.get_interface('q0'), c0, True, l1, True, u0)
    node = props(mk_node([nic, gpu], [svc, mk_ns('s1', [])], False), c1, True, l0, True, u1)
    cp = copy.deepcopy(node)
    if node.diff(cp) is not None or cp.diff(node) is not None:
        return False
    return svc.diff(copy.deepcopy(svc)) is None and node.diff(node) is None
