"""C10 - slice validation accepts exactly what the (pinned) constraint tables allow.

The service under test is a REAL NetworkService in a real ExperimentTopology graph (so the
declared / inferred `site` goes through the real property code); the interfaces handed to
validate_constraints and the ownership answer are harness-controlled stand-ins, which is what
makes site placement / interface kinds symbolic (DESIGN 2/C10)."""
import json
import os
from typing import List
from vf.prelude import R, begin
from vf.registry import harness, add
from fim.user.topology import ExperimentTopology, TopologyException
from fim.user.network_service import NetworkService, ServiceType, MirrorDirection
from fim.user.model_element import ElementType
from fim.user.node import Node, NodeType
from fim.user.interface import InterfaceType
from fim.slivers.network_service import NetworkServiceSliver
from fim.slivers.network_node import NodeSliver

SPEC = json.load(open(os.path.join(os.path.dirname(__file__), "..", "spec", "c10_constraints.json")))
NO_LIMIT = SPEC["NO_LIMIT"]
SITES = ['RENC', 'UKY', 'LBNL']
ITYPES = list(InterfaceType)
def _ero():
    from fim.slivers.path_info import ERO, Path
    e, p = ERO(), Path()
    p.set_symmetric(['hopA', 'hopB'])
    e.set(p)
    return e


PROPVAL = {'mirror_port': 'p1', 'mirror_vlan': '100', 'mirror_direction': MirrorDirection.Both,
           'controller_url': 'http://c/', 'site': None, 'ero': _ero()}
ENC = ("fim.user.network_service.NetworkService.validate_constraints",
       "fim.user.network_service.NetworkService.__validate_nstype_constraints",
       "fim.graph.abc_property_graph.ABCPropertyGraph.network_service_sliver_from_graph_properties_dict",
       "fim.user.network_service.NetworkService.get_property", "fim.user.network_service.NetworkService.set_property")


class Owner:
    def __init__(self, site):
        self.site = site
        self.name = 'n-' + str(site)


class FakeIf:
    """stand-in for a node interface: only what validate_constraints reads"""
    def __init__(self, idx, site, itype):
        self.name = 'if%d' % idx
        self.node_id = 'ifid%d' % idx
        self.type = itype
        self._owner = Owner(site)

    def __repr__(self):
        return self.name


def mk_service(stype, declared, props):
    t = ExperimentTopology()
    t.get_owner_node = lambda i: i._owner
    kw = {k: PROPVAL[k] for k in props}
    svc = NetworkService(name='svc1', topo=t, etype=ElementType.NEW, nstype=stype, site=declared, **kw)
    return t, svc


def oracle_counts_sites(row, k, if_sites, declared):
    """independent reading of the pinned table: returns (accept, inferred_single_site)"""
    if row["min_interfaces"] != NO_LIMIT and k < row["min_interfaces"]:
        return False, None
    if row["num_interfaces"] != NO_LIMIT and k > row["num_interfaces"]:
        return False, None
    if row["num_sites"] == NO_LIMIT:
        return True, None
    distinct = []
    for s in if_sites:
        if s not in distinct:
            distinct.append(s)
    if len(distinct) > row["num_sites"]:
        return False, None
    if len(distinct) == 1:
        if declared is not None and declared != distinct[0]:
            return False, None
        return True, distinct[0]
    if len(distinct) > 1 and declared is not None:
        return False, None
    return True, None


def _mk_counts(stname, NS):
    stype = ServiceType[stname]
    row = SPEC["services"][stname]
    base_props = [p for p in row["required_properties"] if p != 'site']

    def h_counts(k: int, s0: int, s1: int, s2: int, s3: int, decl: int) -> bool:
        """
        pre: 0 <= k <= 4
        pre: 0 <= s0 < NS and 0 <= s1 < NS and 0 <= s2 < NS and 0 <= s3 < NS
        pre: 0 <= decl <= NS
        post: R(_)
        """
        begin()
        _closure = (NS,)  # keep NS in the closure: CrossHair resolves pre: names through it
        if_sites = [SITES[x] for x in (s0, s1, s2, s3)][:k]
        declared = None if decl == 0 else SITES[decl - 1]
        okind = ITYPES[0]
        if row["required_interface_types"]:
            okind = InterfaceType[row["required_interface_types"][0]]
        t, svc = mk_service(stype, declared, base_props)
        ifs = [FakeIf(i, s, okind) for i, s in enumerate(if_sites)]
        exp, inferred = oracle_counts_sites(row, k, if_sites, declared)
        if exp and 'site' in row["required_properties"] and declared is None and inferred is None:
            exp = False
        try:
            svc.validate_constraints(ifs)
            got = True
        except TopologyException:
            got = False
        if got != exp:
            return False
        if got and inferred is not None:
            # a successful validation records the inferred site on single-site services
            if svc.site != inferred:
                return False
        return True
    return h_counts


for _st in SPEC["services"]:
    for _ns, _tier in ((2, "quick"), (3, "thorough")):
        add("service_counts_sites/%s/%dsites" % (_st, _ns), _mk_counts(_st, _ns), timeout=300 if _ns == 2 else 900, tiers=(_tier,),
            encodes=ENC, finding="declared_site",
            bounds="service type %s: 0..4 connected interfaces, each owner on one of %d sites, declared site in {none, %d sites}; "
                   "required properties set, no forbidden ones, permitted interface kind" % (_st, _ns, _ns))


def _mk_props(stname, full):
    stype = ServiceType[stname]
    row = SPEC["services"][stname]
    constrained = [p for p in (row["required_properties"] + row["forbidden_properties"]) if p != 'site']
    NP = len(constrained)
    k_ok = max(1, row["min_interfaces"])

    okidx = 0
    if row["required_interface_types"]:
        okidx = ITYPES.index(InterfaceType[row["required_interface_types"][0]])

    def h_props_dev(bits: List[bool], dev: int, kind: int, has_site: bool) -> bool:
        """
        pre: len(bits) == NP and 0 <= dev < k_ok and 0 <= kind < len(ITYPES)
        post: R(_)
        """
        _closure = (NP,)  # keep NP in the closure: CrossHair resolves pre: names through it
        kinds = [okidx] * k_ok
        for d in range(k_ok):
            if dev == d:
                kinds[d] = kind
        return body(bits, kinds, has_site)

    def h_props(bits: List[bool], kinds: List[int], has_site: bool) -> bool:
        """
        pre: len(bits) == NP and len(kinds) == k_ok
        pre: all(0 <= x < len(ITYPES) for x in kinds)
        post: R(_)
        """
        _closure = (NP, k_ok)
        return body(bits, kinds, has_site)

    def body(bits, kinds, has_site):
        # NOTE: no contract on this helper - CrossHair may replace a call to a function that HAS a contract by its postcondition
        begin()
        present = [constrained[i] for i in range(NP) if bits[i]]
        declared = SITES[0] if has_site else None
        t, svc = mk_service(stype, declared, present)
        # kinds are only looked at when the type restricts them (an index into ITYPES forks per value)
        ifs = [FakeIf(i, SITES[0], ITYPES[kinds[i]] if row["required_interface_types"] else ITYPES[0]) for i in range(k_ok)]
        exp = True
        for p in row["required_properties"]:
            if p != 'site' and p not in present:
                exp = False
        for p in row["forbidden_properties"]:
            if p in present:
                exp = False
        if row["required_interface_types"]:
            for i in range(k_ok):
                if ITYPES[kinds[i]].name not in row["required_interface_types"]:
                    exp = False
        try:
            svc.validate_constraints(ifs)
            got = True
        except TopologyException:
            got = False
        return got == exp
    return (h_props if full else h_props_dev), NP, k_ok


for _st in SPEC["services"]:
    _fn, _np, _k = _mk_props(_st, False)
    add("service_props_kinds/" + _st, _fn, timeout=400, encodes=ENC,
        bounds="service type %s: presence bit of each of its %d constrained properties, %d interface(s) on one site of which one (symbolic position) "
               "has a kind over all %d InterfaceType values, declared site present or inferred" % (_st, _np, _k, len(ITYPES)))
    if _k > 1:
        _fn, _np, _k = _mk_props(_st, True)
        add("service_props_kinds_allkinds/" + _st, _fn, timeout=1800, tiers=("thorough",), encodes=ENC,
            bounds="service type %s: presence bit of each of its %d constrained properties x every kind combination of %d interfaces"
                   % (_st, _np, _k))


# ---------------------------------------------------------------- live tables == pinned tables
@harness("live_tables_equal_pinned", timeout=60,
         encodes=("fim.slivers.network_service.NetworkServiceSliver", "fim.slivers.network_node.NodeSliver"),
         bounds="every row/column of both constraint tables (concrete comparison; reported through the same channel)")
def h_tables(dummy: bool) -> bool:
    """
    post: R(_)
    """
    live = NetworkServiceSliver.ServiceConstraints
    if sorted(t.name for t in live) != sorted(SPEC["services"]) or NetworkServiceSliver.NO_LIMIT != NO_LIMIT:
        return False
    if sorted(t.name for t in ServiceType) != sorted(SPEC["services"]):
        return False
    for t, r in live.items():
        p = SPEC["services"][t.name]
        if (r.layer.name != p["layer"] or r.min_interfaces != p["min_interfaces"] or r.num_interfaces != p["num_interfaces"]
                or r.num_sites != p["num_sites"] or r.num_instances != p["num_instances"]
                or list(r.required_properties) != p["required_properties"]
                or sorted(r.forbidden_properties) != sorted(p["forbidden_properties"])
                or sorted(x.name for x in r.required_interface_types) != sorted(p["required_interface_types"])):
            return False
    ln = NodeSliver.NodeConstraints
    if sorted(t.name for t in ln) != sorted(SPEC["nodes"]):
        return False
    for t, r in ln.items():
        p = SPEC["nodes"][t.name]
        if sorted(r.required_properties) != sorted(p["required_properties"]) or sorted(r.forbidden_properties) != sorted(p["forbidden_properties"]):
            return False
    return True


# ---------------------------------------------------------------- node constraints
NODE_PROPS = {'site': 'RENC', 'image_type': 'qcow2', 'image_ref': 'default_ubuntu', 'management_ip': '10.0.0.1'}


def _mk_node(ntname):
    ntype = NodeType[ntname]
    row = SPEC["nodes"][ntname]
    # settable units: the image pair is only stored when both halves are given (one graph property)
    units = {'site': ['site'], 'image': ['image_ref', 'image_type'], 'management_ip': ['management_ip']}
    names = sorted(units)
    NPN = len(names)

    def h_node(bits: List[bool], with_comp: bool) -> bool:
        """
        pre: len(bits) == NPN
        post: R(_)
        """
        begin()
        t = ExperimentTopology()
        present = []
        for i in range(NPN):
            if bits[i]:
                present += units[names[i]]
        kw = {p: NODE_PROPS[p] for p in present if p != 'site'}
        n = t.add_node(name='n1', ntype=ntype, site=NODE_PROPS['site'], **kw)
        if 'site' not in present:
            n.unset_property('site')
        if with_comp:
            from fim.slivers.attached_components import ComponentType
            n.add_component(name='c1', ctype=ComponentType.GPU, model='RTX6000')
        exp = True
        for p in row["required_properties"]:
            if p not in present:
                exp = False
        for p in row["forbidden_properties"]:
            if p == 'attached_components_info':
                continue
            if p in present:
                exp = False
        try:
            n.validate_constraints()
            got = True
        except TopologyException:
            got = False
        return got == exp
    return h_node, NPN


for _nt in SPEC["nodes"]:
    _fn, _npn = _mk_node(_nt)
    add("node_props/" + _nt, _fn, timeout=400, encodes=("fim.user.node.Node.validate_constraints",
                                                         "fim.graph.abc_property_graph.ABCPropertyGraph.node_sliver_from_graph_properties_dict"),
        bounds="node type %s: presence bit of site / image (ref+type, stored as one property) / management_ip, with/without an attached component "
               "(attached_components_info is not populated by the shallow sliver validate uses, so a component never causes rejection - "
               "not asserted either way)" % _nt)


# ---------------------------------------------------------------- connect-time guardrail + validate() wiring on a real slice
def _real_case(sa, sb, ka, kb, st, decl):
    begin()
    from fim.slivers.attached_components import ComponentType
    t = ExperimentTopology()
    stname = ['L2PTP', 'L2Bridge', 'L2STS'][st]
    row = SPEC["services"][stname]
    nodes, ifs, kinds = [], [], []
    for i, (s, smart) in enumerate(((sa, ka), (sb, kb))):
        n = t.add_node(name='n%d' % i, site=SITES[s], ntype=NodeType.VM)
        c = n.add_component(name='nic%d' % i, ctype=ComponentType.SmartNIC if smart else ComponentType.SharedNIC,
                            model='ConnectX-6' if smart else 'ConnectX-6')
        ifs.append(list(c.interfaces.values())[0])
        kinds.append('DedicatedPort' if smart else 'SharedPort')
    declared = None if decl == 0 else SITES[decl - 1]
    guard_reject = stname == 'L2PTP' and 'SharedPort' in kinds
    try:
        svc = t.add_network_service(name='svc', nstype=ServiceType[stname], interfaces=ifs, site=declared)
        created = True
    except TopologyException:
        created = False
    if created == guard_reject:
        return False
    if not created:
        # refused at once, and nothing of the service is left behind
        return 'svc' not in t.network_services and len(t.links) == 0
    exp, inferred = oracle_counts_sites(row, 2, [SITES[sa], SITES[sb]], declared)
    if row["required_interface_types"]:
        for kd in kinds:
            if kd not in row["required_interface_types"]:
                exp = False
    try:
        t.validate()
        got = True
    except TopologyException:
        got = False
    if got != exp:
        return False
    if got and inferred is not None and t.network_services['svc'].site != inferred:
        return False
    return True


def _mk_real(st, ka, kb):
    def h_real(sa: int, sb: int, decl: int) -> bool:
        """
        pre: 0 <= sa < 2 and 0 <= sb < 2 and 0 <= decl <= 2
        post: R(_)
        """
        return _real_case(sa, sb, ka, kb, st, decl)
    return h_real


for _st in range(3):
    for _ka in (False, True):
        for _kb in (False, True):
            add("guardrail_and_validate_real_slice/%s-%s-%s" % (['L2PTP', 'L2Bridge', 'L2STS'][_st], 'smart' if _ka else 'shared', 'smart' if _kb else 'shared'),
                _mk_real(_st, _ka, _kb), timeout=600, tiers=("quick", "thorough") if (_ka == _kb and (not _ka or _st == 0)) else ("thorough",),
                encodes=("fim.user.network_service.NetworkService.__service_guardrails", "fim.user.topology.Topology.validate",
                         "fim.user.network_service.NetworkService.connect_interface", "fim.user.network_service.NetworkService.__init__"),
                bounds="real 2-node slice through the public API: nodes on symbolic sites (2 each), declared site in {none, 2 sites}; "
                       "service type and NIC kinds fixed per harness")
