"""C16 layer 2 (routing, engine E1): every construction path applies the same validation as the
scalar constructor.  Short formats use fully symbolic strings; long formats (MAC, PCI, addresses) use
members / near-misses from a concrete pool chosen by symbolic index.  No language claim is made here
(that is layer 1, z3): both sides of every equivalence run under the same regex model."""
from typing import List
from vf.prelude import R, begin, JSONSHIM
from vf.registry import harness, add
from fim.slivers.capacities_labels import Labels, JSONField, Capacities
from fim.slivers.tags import Tags
from fim.slivers.gateway import Gateway
from fim.slivers.delegations import Delegation, Delegations, DelegationType, DelegationFormat
from fim.slivers.json_data import UserData, MeasurementData, LayoutData
from fim.slivers.network_node import NodeSliver
from fim.slivers.network_service import NetworkServiceSliver
from fim.slivers.network_link import NetworkLinkSliver
from fim.slivers.interface_info import InterfaceSliver
from fim.slivers.attached_components import ComponentSliver

ENC = ("fim.slivers.capacities_labels.Labels._set_fields", "fim.slivers.capacities_labels.JSONField.update",
       "fim.slivers.capacities_labels.JSONField.from_json", "fim.slivers.capacities_labels.Labels.__init__")


def acc(thunk):
    try:
        thunk()
        return True
    except Exception:
        return False


GOOD = {'numa': '3'}
SHORT_LEN = {'numa': 3}


def _mk_short(field):
    good = GOOD[field]

    def h_short(s: str) -> bool:
        """
        pre: len(s) <= SHORT_LEN[field]
        post: R(_)
        """
        begin()
        a0 = acc(lambda: Labels(**{field: s}))
        if acc(lambda: Labels(**{field: [good, s]})) != a0 or acc(lambda: Labels(**{field: [s]})) != a0:
            return False
        if acc(lambda: Labels()._set_fields(**{field: s})) != a0:
            return False
        if acc(lambda: JSONField.update(Labels(local_name='x'), **{field: s})) != a0:
            return False
        if acc(lambda: Labels.from_json(JSONSHIM.dumps({field: s}))) != a0:
            return False
        if acc(lambda: Labels.from_json(JSONSHIM.dumps({'local_name': 'x', field: [good, s]}))) != a0:
            return False
        if a0:
            # what was accepted is stored as given and can be encoded and decoded again without being rejected
            lab = Labels(**{field: s})
            if getattr(lab, field) != s:
                return False
            back = Labels.from_json(lab.to_json())
            if back is None or getattr(back, field) != s:
                return False
            up = JSONField.update(lab, local_name='y')
            if getattr(up, field) != s:
                return False
        return True
    return h_short


for _f in GOOD:
    add("labels_entry_points_agree/" + _f, _mk_short(_f), timeout=600, encodes=ENC,
        bounds="field %s: symbolic string (len<=2; numa len<=3) through constructor (scalar, list, list with a valid companion), _set_fields, update(), from_json (scalar and list)" % _f)


POOL = {
    'vlan': ['100', '100\n', '4097', '-1', ' 7'],
    'inner_vlan': ['4096', '4096\n', '40960', '1.0', '7 '],
    'asn': ['65000', '65000\n', '0', '4294967296', '65 000'],
    'bdf': ['0000:41:00.0', '0000:41:00.0\n', '0000:41:00', 'g000:41:00.0', ' 0000:41:00.0'],
    'mac': ['00:11:22:33:44:55', '00:11:22:33:44:55\n', '00:11:22:33:44', '00-11-22-33-44-55', '00:11:22:33:44:5g'],
    'ipv4': ['192.168.1.1', '192.168.1.1\n', '192.168.1.256', '192.168.1', '1.2.3.4.5'],
    'ipv4_range': ['192.168.1.1-192.168.1.10', '192.168.1.1-192.168.1.10\n', '192.168.1.1', '192.168.1.1-', '1.1.1.1-2.2.2.300'],
    'ipv4_subnet': ['192.168.1.0/24', '192.168.1.0/24\n', '192.168.1.0', '192.168.1.0/', '192.168.1.0/245'],
    'ipv6': ['2001:db8::1', '2001:db8::1\n', '2001:db8::g', '1:2:3:4:5:6:7:8:9', '2001:db8::1 '],
    'ipv6_range': ['2001:db8::1-2001:db8::9', '2001:db8::1-2001:db8::9\n', '2001:db8::1', 'x-y', '1::-2::-3::'],
    'ipv6_subnet': ['2001:db8::/48', '2001:db8::/48\n', '2001:db8::', '2001:db8::/', '2001:db8::/481'],
    'vlan_range': ['100-200', '100-200\n', '200-100', '100-4097', '100'],
    'bgp_key': ['secret-key_1', 'secret-key_1\n', 'short', 'bad key!!', 'x' * 151],
    'account_id': ['123456789012', '123456789012\n', 'ab', 'bad id', 'x' * 101],
    'region': ['us-central1', 'us-central1\n', 'ab', 'bad region', 'x' * 101],
    'usb_id': ['1234:abcd', '1234:abcd\n', '1234:ABCD', '1234abcd', '12345:abcd'],
}
# expected verdict per pool slot: only slot 0 is inside the documented domain
_extra = sorted(set(Labels.VALIDATORS) - set(POOL) - set(GOOD))


@harness("labels_pool_covers_every_validated_field", timeout=30, encodes=ENC,
         bounds="concrete: every field with a validator has a short-string harness or a pool (a new validated field is reported)")
def h_poolcover(dummy: bool) -> bool:
    """
    post: R(_)
    """
    return _extra == [] and set(Labels.LAMBDA_VALIDATORS) <= set(POOL) | set(GOOD)


def _mk_pool(field):
    pool = POOL[field]

    def h_pool(i: int, j: int) -> bool:
        """
        pre: 0 <= i < 5 and 0 <= j < 5
        post: R(_)
        """
        begin()
        s, t = pool[i], pool[j]
        exp = (i == 0)
        if acc(lambda: Labels(**{field: s})) != exp:
            return False
        if acc(lambda: Labels(**{field: [s, t]})) != (exp and j == 0):
            return False
        if acc(lambda: Labels()._set_fields(**{field: s})) != exp:
            return False
        if acc(lambda: JSONField.update(Labels(local_name='x'), **{field: [t, s]})) != (exp and j == 0):
            return False
        if acc(lambda: Labels.from_json(JSONSHIM.dumps({field: s}))) != exp:
            return False
        if exp:
            lab = Labels(**{field: [s, s]})
            back = Labels.from_json(lab.to_json())
            if back is None or getattr(back, field) != [s, s]:
                return False
        return True
    return h_pool


for _f in POOL:
    add("labels_entry_points_pool/" + _f, _mk_pool(_f), timeout=300, encodes=ENC,
        bounds="field %s: a member and 4 near-misses (trailing newline, truncated, wrong separator/character, over-long) by symbolic index, "
               "scalar and 2-element list, through constructor, _set_fields, update(), from_json" % _f)


@harness("tags_entry_points_agree", timeout=600, encodes=("fim.slivers.tags.Tags.__init__", "fim.slivers.tags.Tags._check", "fim.slivers.tags.Tags.from_json"),
         bounds="symbolic tag string len<=3 through Tags(s), Tags([good, s]), Tags(good, s), Tags((s,)), Tags.from_json")
def h_tags(s: str) -> bool:
    """
    pre: len(s) <= 3
    post: R(_)
    """
    begin()
    a0 = acc(lambda: Tags(s))
    if acc(lambda: Tags(['ok-tag', s])) != a0 or acc(lambda: Tags('ok-tag', s)) != a0 or acc(lambda: Tags((s,))) != a0:
        return False
    if acc(lambda: Tags.from_json(JSONSHIM.dumps([s, 'ok-tag']))) != a0:
        return False
    if a0:
        t = Tags('ok-tag', s)
        back = Tags.from_json(t.to_json())
        if back is None or list(back.tags) != ['ok-tag', s]:
            return False
    # non-string members are always refused
    return not acc(lambda: Tags([s, 5])) and not acc(lambda: Tags(None))


NAMED = [NodeSliver, NetworkServiceSliver, NetworkLinkSliver, InterfaceSliver, ComponentSliver]


def _mk_name(cls):
    def h_name(s: str) -> bool:
        """
        pre: len(s) <= 3
        post: R(_)
        """
        begin()
        a0 = acc(lambda: cls().set_name(s))
        if acc(lambda: cls().set_property('name', s)) != a0:
            return False
        if acc(lambda: cls().set_properties(name=s)) != a0:
            return False
        if a0:
            x = cls()
            x.set_properties(name=s)
            if x.get_name() != s:
                return False
        else:
            x = cls()
            try:
                x.set_name(s)
            except Exception:
                pass
            if x.get_name() is not None:
                return False
        return True
    return h_name


for _c in NAMED:
    add("name_entry_points_agree/" + _c.__name__, _mk_name(_c), timeout=600, encodes=("fim.slivers.base_sliver.BaseSliver.set_name", "fim.slivers.base_sliver.BaseSliver.set_properties"),
        bounds="%s: symbolic name len<=3 through set_name, set_property('name'), set_properties(name=); a rejected name is not stored" % _c.__name__)


@harness("gateway_and_delegation_details_validated", timeout=300,
         encodes=("fim.slivers.gateway.Gateway.__init__", "fim.slivers.delegations.Delegation.set_details", "fim.slivers.delegations.Delegations.from_json"),
         bounds="gateway/delegation details built from pool members and near-misses of ipv4, ipv4_subnet, mac by symbolic index")
def h_gateway(i: int, j: int, k: int) -> bool:
    """
    pre: 0 <= i < 5 and 0 <= j < 5 and 0 <= k < 5
    post: R(_)
    """
    begin()
    a, b, m = POOL['ipv4'][i], POOL['ipv4_subnet'][j], POOL['mac'][k]
    ok = (i == 0 and j == 0 and k == 0)
    if acc(lambda: Gateway(Labels(ipv4=a, ipv4_subnet=b, mac=m))) != ok:
        return False
    if acc(lambda: Gateway.from_json(JSONSHIM.dumps({'ipv4': a, 'ipv4_subnet': b, 'mac': m}))) != ok:
        return False
    # a Labels object cannot be brought into an invalid state through plain attribute-free paths: details of a
    # delegation decoded from text are validated too
    txt = JSONSHIM.dumps({'del1': {'pool_id': '_', 'labels': {'ipv4': a, 'mac': [m]}}})
    if acc(lambda: Delegations.from_json(json_str=txt, atype=DelegationType.LABEL)) != (i == 0 and k == 0):
        return False
    return True


SIZED = [(UserData, 2048), (MeasurementData, 4096), (LayoutData, 1024)]


@harness("jsondata_and_boot_script_size_limits", timeout=300,
         encodes=("fim.slivers.json_data.JSONData.__init__", "fim.slivers.base_sliver.BaseSliver.set_boot_script"),
         bounds="lengths limit-1, limit, limit+1, limit+2 (symbolic index) for each JSON blob class in string and object form; invalid JSON text; "
                "boot script lengths around its limit through set_boot_script and set_properties")
def h_sizes(c: int, d: int, obj: bool) -> bool:
    """
    pre: 0 <= c < 3 and 0 <= d < 4
    post: R(_)
    """
    cls, limit = SIZED[c]
    if limit != cls.MAX_SIZE:
        return False
    n = limit - 1 + d
    text = '"' + 'a' * (n - 2) + '"'
    if obj:
        ok = acc(lambda: cls(['a' * (n - 4)]))      # a list with one string: encodes to n characters
    else:
        ok = acc(lambda: cls(text))
    if ok != (n <= limit):
        return False
    if acc(lambda: cls('{not json')) or acc(lambda: cls('')):
        return False
    if ok and not obj and cls(text).json != text:
        return False
    bl = 1022 + d
    if acc(lambda: NodeSliver().set_boot_script('x' * bl)) != (bl <= 1023):
        return False
    if acc(lambda: NodeSliver().set_properties(boot_script='x' * bl)) != (bl <= 1023):
        return False
    return True
