"""C04 - graphs sharing the in-memory store are isolated; clones are independent.
One step from a bounded symbolic store state on both store flavours: the snapshot of every OTHER
graph (internal ids included) is identical before and after the step, whether it returns or raises."""
from typing import List
from vf.prelude import R, begin
from vf.registry import harness, add
from harness.storelib import (tok, importer, pg, raw_graph, snapshot, content, PNAMES, QE)
from fim.graph.abc_property_graph import PropertyGraphImportException

S = "fim.graph.networkx_property_graph.NetworkXGraphStorage."
ENC = ("fim.graph.networkx_mixin.NetworkXMixin._find_node", "fim.graph.networkx_mixin.NetworkXMixin._find_all_nodes",
       "fim.graph.networkx_property_graph.NetworkXPropertyGraph.clone_graph", "fim.graph.networkx_property_graph.NetworkXPropertyGraph.delete_graph",
       "fim.graph.networkx_property_graph.NetworkXPropertyGraph.add_node", "fim.graph.networkx_property_graph.NetworkXPropertyGraph.delete_node",
       "fim.graph.networkx_property_graph.NetworkXPropertyGraph.update_nodes_property",
       "fim.graph.networkx_property_graph.NetworkXGraphImporter.delete_graph")
NODE_IDS = ['n0', 'n1', 'n9', 'm1']     # m1 exists only in the OTHER graph g2, n9 nowhere
OPS = ["add_node", "delete_node", "add_link", "update_node_property", "unset_node_property", "update_nodes_property",
       "update_node_properties", "update_link_property", "unset_link_property", "import_new", "reimport_same_id", "reimport_same_id_larger",
       "delete_graph", "delete_then_reimport", "import_without_nodeid"]


def mk_store(disjoint, c, v, r, third):
    """g1 and g2 share a node id ('n0'); their raw node keys collide with each other and with internal ids of the store"""
    imp = importer(disjoint)
    g2 = raw_graph([{'NodeID': 'n0', 'Class': c[0], 'P': v[0], 'Name': v[1]}, {'NodeID': 'm1', 'Class': c[1], 'P': v[1]}],
                   [(0, 1, {'Class': r[0], 'Q': v[0]})], key_base=1)
    g1 = raw_graph([{'NodeID': 'n0', 'Class': c[2], 'P': v[2], 'Name': v[1]}, {'NodeID': 'n1', 'Class': c[3]}],
                   [(0, 1, {'Class': r[1], 'Q': v[3]})], key_base=1)
    imp.storage.add_graph('g2', g2)
    imp.storage.add_graph('g1', g1)
    if third:
        imp.storage.add_graph('g0', raw_graph([{'NodeID': 'n1', 'Class': c[0]}], [], key_base=2))
    return imp


def new_graph(l, v, with_id=True, larger=False):
    nodes = [{'NodeID': 'n0', 'Class': l, 'P': v}, {'NodeID': 'z1', 'Class': l}]
    if not with_id:
        nodes[1] = {'Class': l, 'NodeID': ''}
    edges = [(0, 1, {'Class': l})]
    if larger:
        # more nodes than the graph it replaces had
        nodes += [{'NodeID': 'z2', 'Class': l}, {'NodeID': 'z3', 'Class': l, 'P': v}]
        edges += [(1, 2, {'Class': l}), (2, 3, {'Class': l})]
    return raw_graph(nodes, edges, key_base=1)


def do_op(imp, g, op, xi, yi, l, k, v, disjoint):
    try:
        if op == "add_node":
            g.add_node(node_id=NODE_IDS[xi], label=l, props={'P': v})
        elif op == "delete_node":
            g.delete_node(node_id=NODE_IDS[xi])
        elif op == "add_link":
            g.add_link(node_a=NODE_IDS[xi], rel=l, node_b=NODE_IDS[yi], props={'Q': v})
        elif op == "update_node_property":
            g.update_node_property(node_id=NODE_IDS[xi], prop_name=PNAMES[k], prop_val=v)
        elif op == "unset_node_property":
            g.unset_node_property(node_id=NODE_IDS[xi], prop_name=PNAMES[k])
        elif op == "update_nodes_property":
            g.update_nodes_property(prop_name=PNAMES[k], prop_val=v)
        elif op == "update_node_properties":
            g.update_node_properties(node_id=NODE_IDS[xi], props={PNAMES[k]: v, 'P': v})
        elif op == "update_link_property":
            g.update_link_property(node_a=NODE_IDS[xi], node_b=NODE_IDS[yi], kind=l, prop_name=PNAMES[k], prop_val=v)
        elif op == "unset_link_property":
            g.unset_link_property(node_a=NODE_IDS[xi], node_b=NODE_IDS[yi], kind=l, prop_name=PNAMES[k])
        elif op == "import_new":
            imp.storage.add_graph('g3', new_graph(l, v))
        elif op == "reimport_same_id":
            imp.storage.add_graph('g1', new_graph(l, v))
        elif op == "reimport_same_id_larger":
            imp.storage.add_graph('g1', new_graph(l, v, larger=True))
        elif op == "delete_graph":
            g.delete_graph()
        elif op == "delete_then_reimport":
            imp.delete_graph(graph_id='g1')
            imp.storage.add_graph('g1', new_graph(l, v))
        elif op == "import_without_nodeid":
            imp.storage.add_graph('g3', new_graph(l, v, with_id=False))
        else:
            raise ValueError(op)
        return True
    except (QE, PropertyGraphImportException):
        return False


def _mk(op, disjoint):
    def h_iso(c: List[int], v: List[int], r: List[int], third: bool, xi: int, yi: int, l: int, k: int, val: int) -> bool:
        """
        pre: len(c) == 4 and len(v) == 4 and len(r) == 2
        pre: 0 <= xi < 4 and 0 <= yi < 4 and 0 <= k < 7
        post: R(_)
        """
        begin()
        if PNAMES[k] == 'GraphID' and op in ("update_node_property", "update_nodes_property", "update_node_properties"):
            return True     # deliberate re-homing by rewriting the graph id is C14's subject
        C, V, Rr = [tok(z) for z in c], [tok(z) for z in v], [tok(z) for z in r]
        imp = mk_store(disjoint, C, V, Rr, third)
        g = pg(imp, 'g1', disjoint)
        before2 = snapshot(imp, 'g2')
        before0 = snapshot(imp, 'g0') if third else None
        ok = do_op(imp, g, op, xi, yi, tok(l), k, tok(val), disjoint)
        if snapshot(imp, 'g2') != before2:
            return False
        if third and snapshot(imp, 'g0') != before0:
            return False
        # no two stored nodes share an internal identity: every graph still has all of its nodes
        if op in ("import_new",) and ok:
            c3 = content(imp, 'g3')
            if c3 is None or len(c3[0]) != 2 or len(c3[1]) != 1:
                return False
            ids = [dict(p).get('NodeID') for p in c3[0]]
            gids = [dict(p).get('GraphID') for p in c3[0]]
            if ids != ['n0', 'z1'] or gids != ['g3', 'g3']:
                return False
            if content(imp, 'g1') is None or len(content(imp, 'g1')[0]) != 2:
                return False
        if op == "reimport_same_id_larger" and not disjoint:
            # the shared store replaces the graph (the per-graph store's skip is the listed C05 finding): all four nodes and three edges are there
            c1 = content(imp, 'g1')
            if not ok or c1 is None or [dict(p).get('NodeID') for p in c1[0]] != ['n0', 'z1', 'z2', 'z3'] or len(c1[1]) != 3:
                return False
        if op == "delete_then_reimport":
            c1 = content(imp, 'g1')
            if not ok or c1 is None or [dict(p).get('NodeID') for p in c1[0]] != ['n0', 'z1']:
                return False
        if op == "import_without_nodeid":
            # a rejected import leaves no partial graph behind
            if ok or content(imp, 'g3') is not None:
                return False
        if op == "delete_graph":
            if content(imp, 'g1') is not None or g.graph_exists():
                return False
        return True
    return h_iso


for _dj in (False, True):
    for _op in OPS:
        add("%s/frame/%s" % ("disjoint" if _dj else "shared", _op), _mk(_op, _dj), timeout=600, encodes=ENC,
            finding="reimport" if _op == "delete_then_reimport" else None,
            bounds="%s store holding g1, g2 (sharing node id 'n0', colliding raw node keys) and optionally g0; symbolic classes/values/relations "
                   "(opaque tokens); one %s on g1 with symbolic arguments; frame condition on g2/g0 incl. internal ids" % ("per-graph" if _dj else "shared", _op))


def _mk_clone(disjoint):
    def h_clone(c: List[int], v: List[int], r: List[int], xi: int, k: int, val: int, side: bool) -> bool:
        """
        pre: len(c) == 4 and len(v) == 4 and len(r) == 2
        pre: 0 <= xi < 2 and 0 <= k < 2
        post: R(_)
        """
        begin()
        C, V, Rr = [tok(z) for z in c], [tok(z) for z in v], [tok(z) for z in r]
        imp = mk_store(disjoint, C, V, Rr, False)
        src = pg(imp, 'g1', disjoint)
        before2 = snapshot(imp, 'g2')
        src_before = content(imp, 'g1')
        cl = src.clone_graph(new_graph_id='g7')
        c_src, c_cl = content(imp, 'g1'), content(imp, 'g7')
        if c_src != src_before or c_cl is None:
            return False
        # same content under the new id
        if len(c_cl[0]) != len(c_src[0]) or c_cl[1] != c_src[1]:
            return False
        for pa, pb in zip(c_src[0], c_cl[0]):
            da, db = dict(pa), dict(pb)
            if db.pop('GraphID') != 'g7' or da.pop('GraphID') != 'g1' or da != db:
                return False
        # later changes to either do not show up in the other
        tgt, other, oid = (cl, 'g1', 'g7') if side else (src, 'g7', 'g1')
        keep = content(imp, other)
        tgt.update_node_property(node_id=NODE_IDS[xi], prop_name=PNAMES[k], prop_val=tok(val))
        tgt.update_link_property(node_a='n0', node_b='n1', kind=Rr[1], prop_name='Q', prop_val=tok(val))
        tgt.delete_node(node_id=NODE_IDS[1 - xi])
        if content(imp, other) != keep or snapshot(imp, 'g2') != before2:
            return False
        # adding to one side: every inherited node is still there, the other side is untouched
        tgt.add_node(node_id='fresh1', label=C[0], props={'P': tok(val)})
        tgt.add_node(node_id='fresh2', label=C[1])
        now = content(imp, oid)
        ids = [dict(p).get('NodeID') for p in now[0]]
        if sorted(ids) != sorted([NODE_IDS[xi], 'fresh1', 'fresh2']):
            return False
        if content(imp, other) != keep or snapshot(imp, 'g2') != before2:
            return False
        return True
    return h_clone


for _dj in (False, True):
    add("%s/clone_independent" % ("disjoint" if _dj else "shared"), _mk_clone(_dj), timeout=600, encodes=ENC,
        bounds="clone of g1 in a store also holding g2: same content under the new id; then update node property, update link property and "
               "delete a node on clone or source (symbolic side/arguments): the other side and g2 unchanged")
