"""C03 - attribute value codecs: decode(encode(x)) == x, canonical re-encoding, forward
compatibility, update() purity, finalized MaintenanceInfo is immutable."""
from typing import List, Optional
from vf.prelude import R, begin, JSONSHIM
from vf.registry import harness
from fim.slivers.capacities_labels import (Capacities, CapacityHints, Labels, ReservationInfo, StructuralInfo,
                                           Location, Flags, JSONField)
from fim.slivers.tags import Tags
from fim.slivers.json_data import UserData, MeasurementData, LayoutData
from fim.slivers.gateway import Gateway
from fim.slivers.path_info import Path, PathInfo, ERO, PathRepresentationType
from fim.slivers.maintenance_mode import MaintenanceInfo, MaintenanceEntry, MaintenanceState, MaintenanceModeException
from fim.graph.typed_tuples import Label, Capacity, Location as TTLocation, AllocationConstraint, TypeValidator

P = "fim.slivers.capacities_labels."
CF = sorted(Capacities().__dict__.keys())
NCF = len(CF)


def nonneg(v):
    for x in v:
        if x < 0:
            return False
    return True


def short(ss, n):
    for s in ss:
        if len(s) > n:
            return False
    return True


def fields_equal(a, b):
    if a is None or b is None:
        return a is None and b is None
    if type(a) is not type(b):
        return False
    da, db = a.__dict__, b.__dict__
    if sorted(da.keys()) != sorted(db.keys()):
        return False
    for k in sorted(da.keys()):
        va, vb = da[k], db[k]
        if (va is None) != (vb is None):
            return False
        if va is not None and (va != vb or isinstance(va, bool) != isinstance(vb, bool)):
            return False
    return True


def roundtrip_ok(cls, x, nothing_set):
    t = x.to_json()
    y = cls.from_json(t)
    if nothing_set:
        # a value with nothing set is encoded as empty text and read back as absent
        return t == '' and y is None
    if y is None or not fields_equal(x, y):
        return False
    t2 = y.to_json()
    return JSONSHIM.same_text(t, t2)


# ------------------------------------------------------------------ Capacities
@harness("capacities_roundtrip", timeout=300, encodes=(P + "JSONField.to_json", P + "JSONField.from_json", P + "Capacities._set_fields"),
         bounds="all %d capacity fields unbounded ints >= 0" % NCF)
def h_cap(v: List[int]) -> bool:
    """
    pre: len(v) == NCF
    pre: nonneg(v)
    post: R(_)
    """
    begin()
    x = Capacities(**{f: v[i] for i, f in enumerate(CF)})
    allzero = True
    for i in range(NCF):
        if v[i] != 0:
            allzero = False
    return roundtrip_ok(Capacities, x, allzero)


@harness("capacities_forward_compat_and_update", timeout=200,
         encodes=(P + "JSONField.from_json", P + "JSONField.update", P + "Capacities._set_fields"),
         bounds="3 known fields + 2 unknown keys with arbitrary symbolic int / str values; update() of a symbolic field subset")
def h_cap_fwd(core: int, ram: int, disk: int, e1: int, e2: str, nv: int, which: int) -> bool:
    """
    pre: core >= 0 and ram >= 0 and disk >= 0 and nv >= 0
    pre: 0 <= which < NCF and len(e2) <= 2
    post: R(_)
    """
    begin()
    text = JSONSHIM.dumps({'core': core, 'ram': ram, 'zz_future': e1, 'disk': disk, 'another_new': e2})
    y = Capacities.from_json(text)
    if y is None or y.core != core or y.ram != ram or y.disk != disk:
        return False
    if sorted(y.__dict__.keys()) != CF:
        return False
    # update(): new value, original untouched
    before = dict(y.__dict__)
    z = JSONField.update(y, **{CF[which]: nv})
    if z is y or z.__dict__ is y.__dict__:
        return False
    for f in CF:
        if y.__dict__[f] != before[f]:
            return False
        exp = nv if f == CF[which] else before[f]
        if z.__dict__[f] != exp:
            return False
    return True


# ------------------------------------------------------------------ Location
@harness("location_roundtrip", timeout=120, finding="location",
         encodes=(P + "JSONField.to_json", P + "JSONField.from_json", P + "Location._set_fields"),
         bounds="lat in [-90,90], lon in [-180,180] symbolic floats (finite), postal str len<=2, presence bit per field")
def h_loc(lat: float, lon: float, postal: str, hl: bool, hlo: bool, hp: bool) -> bool:
    """
    pre: -90.0 <= lat <= 90.0 and -180.0 <= lon <= 180.0
    pre: len(postal) <= 2
    post: R(_)
    """
    begin()
    kw = {}
    if hl:
        kw['lat'] = lat
    if hlo:
        kw['lon'] = lon
    if hp:
        kw['postal'] = postal
    x = Location(**kw)
    return roundtrip_ok(Location, x, not (hl or hlo or hp))


# ------------------------------------------------------------------ Labels (free-text fields + validated ones from pools)
VLANS = ['0', '100', '4096']
MACS = ['00:11:22:33:44:55', 'aa:BB:cc:DD:ee:ff']
V4 = ['192.168.1.1', '0.0.0.0']
FREE = [f for f in sorted(Labels().__dict__.keys()) if f not in Labels.VALIDATORS and f not in Labels.LAMBDA_VALIDATORS]


@harness("labels_roundtrip", timeout=300,
         encodes=(P + "JSONField.to_json", P + "JSONField.from_json", P + "Labels._set_fields"),
         bounds="free-text label fields (%s): 3 symbolic strs len<=2 (scalar) + one 2-element list; vlan/mac/ipv4 from concrete pools by symbolic index; presence bit each" % ",".join(FREE))
def h_labels(ln: str, dn: str, inst: str, l0: str, l1: str, vi: int, mi: int, ii: int, bits: List[bool]) -> bool:
    """
    pre: len(ln) <= 2 and len(dn) <= 2 and len(inst) <= 2 and len(l0) <= 2 and len(l1) <= 2
    pre: 0 <= vi < 3 and 0 <= mi < 2 and 0 <= ii < 2
    pre: len(bits) == 7
    post: R(_)
    """
    begin()
    kw = {}
    if bits[0]:
        kw['local_name'] = ln
    if bits[1]:
        kw['device_name'] = dn
    if bits[2]:
        kw['instance'] = inst
    if bits[3]:
        kw['local_type'] = [l0, l1]
    if bits[4]:
        kw['vlan'] = VLANS[vi]
    if bits[5]:
        kw['mac'] = [MACS[mi], MACS[0]]
    if bits[6]:
        kw['ipv4'] = V4[ii]
    x = Labels(**kw)
    return roundtrip_ok(Labels, x, len(kw) == 0)


@harness("labels_forward_compat_and_update", timeout=200,
         encodes=(P + "JSONField.from_json", P + "JSONField.update", P + "Labels._set_fields"),
         bounds="2 known free-text fields + 2 unknown keys, strs len<=2; update() of one field")
def h_labels_fwd(ln: str, dn: str, e1: str, e2: int, nv: str) -> bool:
    """
    pre: len(ln) <= 2 and len(dn) <= 2 and len(e1) <= 2 and len(nv) <= 2
    post: R(_)
    """
    begin()
    text = JSONSHIM.dumps({'aa_unknown': e1, 'local_name': ln, 'vlan': '7', 'zz_unknown': [e1], 'device_name': dn, 'future_num': e2})
    y = Labels.from_json(text)
    if y is None or y.local_name != ln or y.device_name != dn or y.vlan != '7':
        return False
    before = dict(y.__dict__)
    z = Labels.update(y, local_name=nv)
    if z is y:
        return False
    for f in before:
        if y.__dict__[f] != before[f] and not (y.__dict__[f] is None and before[f] is None):
            return False
        exp = nv if f == 'local_name' else before[f]
        if z.__dict__[f] != exp:
            return False
    return True


# ------------------------------------------------------------------ small JSONField classes
@harness("hints_resinfo_structinfo_roundtrip", timeout=300,
         encodes=(P + "JSONField.to_json", P + "JSONField.from_json", P + "CapacityHints._set_fields",
                  P + "ReservationInfo._set_fields", P + "StructuralInfo._set_fields"),
         bounds="every field of CapacityHints/ReservationInfo/StructuralInfo: strs len<=2, adm_graph_ids a 2-list, presence bits")
def h_small(a: str, b: str, c: str, d: str, bits: List[bool]) -> bool:
    """
    pre: len(a) <= 2 and len(b) <= 2 and len(c) <= 2 and len(d) <= 2
    pre: len(bits) == 7
    post: R(_)
    """
    begin()
    ok = roundtrip_ok(CapacityHints, CapacityHints(instance_type=a) if bits[0] else CapacityHints(), not bits[0])
    kw = {}
    if bits[1]:
        kw['reservation_id'] = a
    if bits[2]:
        kw['reservation_state'] = b
    if bits[3]:
        kw['error_message'] = c
    ok = ok and roundtrip_ok(ReservationInfo, ReservationInfo(**kw), len(kw) == 0)
    kw = {}
    if bits[4]:
        kw['sub_graph_id'] = b
    if bits[5]:
        kw['parent_graph_id'] = c
    if bits[6]:
        kw['adm_graph_ids'] = [d, a]
    ok = ok and roundtrip_ok(StructuralInfo, StructuralInfo(**kw), len(kw) == 0)
    return ok


FLAGF = sorted(Flags().__dict__.keys())


@harness("flags_roundtrip", timeout=120, encodes=(P + "Flags.to_json", P + "JSONField.from_json", P + "Flags._set_fields"),
         bounds="all %d flags symbolic booleans incl. all-false" % len(FLAGF))
def h_flags(v: List[bool], setmask: List[bool]) -> bool:
    """
    pre: len(v) == len(FLAGF) and len(setmask) == len(FLAGF)
    post: R(_)
    """
    begin()
    kw = {f: bool(v[i]) for i, f in enumerate(FLAGF) if setmask[i]}
    x = Flags(**kw)
    t = x.to_json()
    y = Flags.from_json(t)
    if y is None or not fields_equal(x, y):
        return False
    for i, f in enumerate(FLAGF):
        if y.__dict__[f] is not (bool(v[i]) if setmask[i] else False):
            return False
    return JSONSHIM.same_text(t, y.to_json())


# ------------------------------------------------------------------ Tags (pool: the pattern is C16's subject)
TAGPOOL = ['a', 'tag-1', 'blue_2', 'Z' * 255]


@harness("tags_roundtrip", timeout=120, encodes=("fim.slivers.tags.Tags.__init__", "fim.slivers.tags.Tags.to_json", "fim.slivers.tags.Tags.from_json"),
         bounds="0..3 tags drawn from a 4-element concrete pool by symbolic index (duplicates/order are the solver's)")
def h_tags(n: int, i0: int, i1: int, i2: int) -> bool:
    """
    pre: 0 <= n <= 3
    pre: 0 <= i0 < 4 and 0 <= i1 < 4 and 0 <= i2 < 4
    post: R(_)
    """
    begin()
    lst = [TAGPOOL[i0], TAGPOOL[i1], TAGPOOL[i2]][:n]
    x = Tags(*lst)
    t = x.to_json()
    y = Tags.from_json(t)
    if y is None or list(y.tags) != lst or list(iter(y)) != lst:
        return False
    if y.to_json() != t:
        return False
    z = Tags(lst)
    return list(z.tags) == lst and Tags.from_json('') is None and Tags.from_json(None) is None


# ------------------------------------------------------------------ JSONData
@harness("jsondata_roundtrip", timeout=200,
         encodes=("fim.slivers.json_data.JSONData.__init__", "fim.slivers.json_data.JSONData.data", "fim.slivers.json_data.JSONData.json"),
         bounds="object form: dict with symbolic int, str(len<=2), bool and a nested list; all three subclasses; None -> {}")
def h_jsondata(i: int, s: str, b: bool, k: int) -> bool:
    """
    pre: len(s) <= 2
    pre: 0 <= k < 3
    post: R(_)
    """
    begin()
    cls = [UserData, MeasurementData, LayoutData][k]
    obj = {'n': i, 's': s, 'b': b, 'l': [i, s, None], 'd': {'x': s}}
    x = cls(obj)
    if x.data != obj:
        return False
    y = cls(x.json)
    if y.data != obj or not JSONSHIM.same_text(x.json, y.json):
        return False
    if obj['n'] is not i or obj['l'][1] is not s:
        return False
    e = cls(None)
    return e.data == {} and e.json == '{}'


# ------------------------------------------------------------------ Gateway
V4SUB = ['192.168.1.0/24', '10.0.0.0/8']
V6 = ['2001:db8::1', '::1']
V6SUB = ['2001:db8::/48', '::/64']


@harness("gateway_roundtrip", timeout=120, encodes=("fim.slivers.gateway.Gateway.__init__", "fim.slivers.gateway.Gateway.to_json", "fim.slivers.gateway.Gateway.from_json"),
         bounds="v4 / v6 / both label combinations, optional mac, values from concrete pools by symbolic index")
def h_gateway(h4: bool, h6: bool, hm: bool, a: int, b: int, c: int) -> bool:
    """
    pre: h4 or h6
    pre: 0 <= a < 2 and 0 <= b < 2 and 0 <= c < 2
    post: R(_)
    """
    begin()
    kw = {}
    if h4:
        kw['ipv4'] = V4[a]
        kw['ipv4_subnet'] = V4SUB[b]
    if h6:
        kw['ipv6'] = V6[a]
        kw['ipv6_subnet'] = V6SUB[b]
    if hm:
        kw['mac'] = MACS[c]
    lab = Labels(**kw)
    g = Gateway(lab)
    t = g.to_json()
    g2 = Gateway.from_json(t)
    if g2.gateway != g.gateway or g2.subnet != g.subnet or g2.mac != g.mac:
        return False
    if g.gateway != (V4[a] if h4 else V6[a]) or g.subnet != (V4SUB[b] if h4 else V6SUB[b]):
        return False
    if g.mac != (MACS[c] if hm else None):
        return False
    if g2.to_json() != t:
        return False
    # input labels untouched
    if lab.__dict__.get('ipv6') != kw.get('ipv6') or lab.mac != kw.get('mac'):
        return False
    n = Gateway(None)
    return n.to_json() is None and Gateway.from_json(None).lab is None


# ------------------------------------------------------------------ PathInfo / ERO
@harness("pathinfo_ero_roundtrip", timeout=300,
         encodes=("fim.slivers.path_info.PathInfo.to_json", "fim.slivers.path_info.PathInfo.from_json", "fim.slivers.path_info.ERO.to_json",
                  "fim.slivers.path_info.ERO.from_json", "fim.slivers.path_info.Path.to_dict", "fim.slivers.path_info.Path.from_dict",
                  "fim.slivers.path_info.Path.set_symmetric"),
         bounds="a2z/z2a lists of length<=2 of strs len<=2, graph payload str len<=2, strict bool, both representation types, PathInfo and ERO")
def h_path(a: List[str], z: List[str], gid: str, strict: bool, graph: bool, ero: bool, sym: bool) -> bool:
    """
    pre: len(a) <= 2 and len(z) <= 2 and short(a, 2) and short(z, 2) and len(gid) <= 2
    post: R(_)
    """
    begin()
    ptype = PathRepresentationType.Graph if graph else PathRepresentationType.Path
    x = ERO(ptype, strict=strict) if ero else PathInfo(ptype)
    if graph:
        x.set(gid)
    else:
        p = Path()
        if sym:
            p.set_symmetric(list(a))
            if p.z2a != list(reversed(a)) or p.a2z != list(a):
                return False
        else:
            p.set(a2z=list(a), z2a=list(z))
        x.set(p)
    t = x.to_json()
    y = (ERO if ero else PathInfo).from_json(t)
    if y is None or y.type != ptype or type(y) is not type(x):
        return False
    if graph:
        if y.payload != gid:
            return False
    else:
        if y.payload.a2z != x.payload.a2z or y.payload.z2a != x.payload.z2a:
            return False
    if ero and y.get_strict() is not bool(strict):
        return False
    if not JSONSHIM.same_text(t, y.to_json()):
        return False
    return PathInfo.from_json('') is None and ERO.from_json(None) is None


# ------------------------------------------------------------------ forward compatibility of every forgiving codec
def _with_unknown(known, pos, extra):
    """the known (key, value) pairs in text order with an unknown key inserted before position pos"""
    items = list(known)
    out = {}
    for j, (k, v) in enumerate(items):
        if j == pos:
            out['%s_future' % ('aa' if j == 0 else 'mm')] = extra
        out[k] = v
    if pos >= len(items):
        out['zz_future'] = extra
    return out


def _mk_fwd(cls, n_known):
    def h_fwd(a: str, b: str, c: str, e: int, pos: int, flag: bool) -> bool:
        """
        pre: len(a) <= 2 and len(b) <= 2 and len(c) <= 2
        pre: 0 <= pos <= n_known
        post: R(_)
        """
        begin()
        _closure = (n_known,)
        known = {CapacityHints: [('instance_type', a)],
                 ReservationInfo: [('error_message', a), ('reservation_id', b), ('reservation_state', c)],
                 StructuralInfo: [('adm_graph_ids', [a, b]), ('parent_graph_id', c), ('sub_graph_id', b)],
                 Location: [('postal', a), ('lat', 1.5), ('lon', -2.25)],
                 Flags: [('auto_config', flag), ('ptp', True), ('ipv4_management', not flag)]}[cls]
        P_ = 0
        for P_ in range(n_known + 1):
            if pos == P_:
                break
        text = JSONSHIM.dumps(_with_unknown(known, P_, e))
        y = cls.from_json(text)
        if y is None:
            return False
        for k, v in known:
            if y.__dict__[k] != v:
                return False
        # and nothing unknown was taken in
        return sorted(y.__dict__.keys()) == sorted(cls().__dict__.keys())
    return h_fwd


from vf.registry import add as _add
for _cls, _n in ((CapacityHints, 1), (ReservationInfo, 3), (StructuralInfo, 3), (Location, 3), (Flags, 3)):
    _add("forward_compat_unknown_key_any_position/" + _cls.__name__, _mk_fwd(_cls, _n), timeout=200,
         encodes=(P + "JSONField.from_json", P + _cls.__name__ + "._set_fields"),
         bounds="%s text with its %d known keys (strs len<=2 / symbolic bool) and one unknown key with a symbolic int value inserted at every "
                "position (before the first, between, after the last)" % (_cls.__name__, _n))


# ------------------------------------------------------------------ MaintenanceInfo
DATES = [None, '2022-01-01T00:00:00+00:00', '2030-12-31T23:59:59.500000-05:00', '2024-02-29T12:00:00']
NAMES = ['w1', 'w2', 'ALL']
STATES = list(MaintenanceState)


@harness("maintenance_roundtrip", timeout=400,
         encodes=("fim.slivers.maintenance_mode.MaintenanceInfo.to_json", "fim.slivers.maintenance_mode.MaintenanceInfo.from_json",
                  "fim.slivers.maintenance_mode.MaintenanceEntry.__init__", "fim.slivers.maintenance_mode.EnhancedJSONEncoder.default"),
         bounds="0..2 entries; names (2), states (4), deadline/expected_end ISO dates (incl. None, tz-aware, fractional; 4) from concrete pools by symbolic index")
def h_maint(n: int, n0: int, n1: int, s0: int, d0: int, e0: int) -> bool:
    """
    pre: 0 <= n <= 2
    pre: 0 <= n0 < 2 and 0 <= n1 < 2 and 0 <= s0 < 4
    pre: 0 <= d0 < 4 and 0 <= e0 < 4
    post: R(_)
    """
    begin()
    mi = MaintenanceInfo()
    if n >= 1:
        mi.add(NAMES[n0], MaintenanceEntry(state=STATES[s0], deadline=DATES[d0], expected_end=DATES[e0]))
    if n >= 2:
        mi.add(NAMES[n1], MaintenanceEntry(state=STATES[(s0 + 1) % 4], deadline=DATES[e0]))
    mi.finalize()
    t = mi.to_json()
    y = MaintenanceInfo.from_json(t)
    if y is None or sorted(y.list_names()) != sorted(mi.list_names()):
        return False
    for nm in mi.list_names():
        a, b = y.get(nm), mi.get(nm)
        if a != b or a.state != b.state or a.deadline != b.deadline or a.expected_end != b.expected_end:
            return False
    return y.to_json() == t and MaintenanceInfo.from_json('') is None and MaintenanceInfo.from_json(None) is None


@harness("maintenance_finalized_immutable", timeout=120,
         encodes=("fim.slivers.maintenance_mode.MaintenanceInfo.add", "fim.slivers.maintenance_mode.MaintenanceInfo.rem",
                  "fim.slivers.maintenance_mode.MaintenanceInfo.pop", "fim.slivers.maintenance_mode.MaintenanceInfo.finalize",
                  "fim.slivers.maintenance_mode.MaintenanceInfo.copy"),
         bounds="0..2 entries (names by symbolic index, present or absent target), each of add/rem/pop, finalized directly or via from_json")
def h_maint_fin(n: int, n0: int, n1: int, tgt: int, op: int, via_json: bool) -> bool:
    """
    pre: 0 <= n <= 2
    pre: 0 <= n0 < 3 and 0 <= n1 < 3 and 0 <= tgt < 3 and 0 <= op < 3
    post: R(_)
    """
    begin()
    mi = MaintenanceInfo()
    if n >= 1:
        mi.add(NAMES[n0], MaintenanceEntry(state=MaintenanceState.PreMaint, deadline=DATES[1]))
    if n >= 2:
        mi.add(NAMES[n1], MaintenanceEntry(state=MaintenanceState.Maint))
    mi.finalize()
    y = MaintenanceInfo.from_json(mi.to_json()) if via_json else mi
    snap = list(y.list_details())
    raised = False
    try:
        if op == 0:
            y.add(NAMES[tgt], MaintenanceEntry(state=MaintenanceState.Active))
        elif op == 1:
            y.rem(NAMES[tgt])
        else:
            y.pop(NAMES[tgt])
    except MaintenanceModeException:
        raised = True
    if not raised or list(y.list_details()) != snap:
        return False
    c = y.copy()
    c.add('w9', MaintenanceEntry(state=MaintenanceState.Maint))
    return list(y.list_details()) == snap


# ------------------------------------------------------------------ legacy typed tuples
TT = [(Label, 'label'), (Capacity, 'cap'), (TTLocation, 'location'), (AllocationConstraint, 'constraint')]
TT_TYPES = {}
for _cls, _cat in TT:
    try:
        _probe = _cls(atype='__nope__', aval='')
    except Exception:
        pass
    TT_TYPES[_cat] = sorted(TypeValidator.instances[_cat].get_types())[:3]


@harness("typed_tuple_roundtrip", timeout=200, finding="typed_tuple",
         encodes=("fim.graph.typed_tuples.TypedTuple.__init__", "fim.graph.typed_tuples.TypedTuple.get_as_string",
                  "fim.graph.typed_tuples.TypedTuple.parse_from_string"),
         bounds="4 tuple classes x first 3 catalogued types (concrete), value a symbolic str len<=3 (any characters incl. blanks and ':')")
def h_tt(k: int, ti: int, val: str) -> bool:
    """
    pre: 0 <= k < 4 and 0 <= ti < 3
    pre: len(val) <= 3
    post: R(_)
    """
    cls, cat = TT[k]
    types = TT_TYPES[cat]
    at = types[ti % len(types)]
    x = cls(atype=at, aval=val)
    s = x.get_as_string()
    y = cls(fromstring=s)
    if y.get_type() != at or y.get_val() != val:
        return False
    if y.get_as_string() != s:
        return False
    x.parse_from_string(s)
    return x.get_type() == at and x.get_val() == val
