"""C02 (graph / model-element half): a deep sliver written into a real model graph and rebuilt from it keeps its
structure and values; element.set_property / get_property / unset_property on every element kind and settable property."""
from typing import List
from vf.prelude import R, begin
from vf.registry import harness, add
from harness.c02 import gen, same_value, shape_of, _svc, ENC, SKIP
from harness.topolib import skeleton, untraced
from fim.user.topology import ExperimentTopology
from fim.graph.abc_property_graph import ABCPropertyGraph, PropertyGraphQueryException
from fim.slivers.network_node import NodeSliver, NodeType
from fim.slivers.attached_components import ComponentSliver, AttachedComponentsInfo, ComponentType
from fim.slivers.network_service import NetworkServiceInfo
from fim.slivers.capacities_labels import Capacities, Labels

ENC_G = ENC + tuple("fim.graph.abc_property_graph.ABCPropertyGraph." + m for m in
                    ("add_network_node_sliver", "add_component_sliver", "add_network_service_sliver", "add_interface_sliver",
                     "build_deep_node_sliver", "build_deep_component_sliver", "build_deep_ns_sliver", "build_deep_interface_sliver")) + \
    ("fim.user.node.Node.set_property", "fim.user.node.Node.get_property", "fim.user.model_element.ModelElement.unset_property",
     "fim.user.component.Component.set_property", "fim.user.network_service.NetworkService.set_property",
     "fim.user.interface.Interface.set_property", "fim.user.link.Link.set_property")


@harness("graph/deep_node_through_graph", timeout=900, encodes=ENC_G,
         bounds="node with 0..2 components (first with a service of 0..2 interfaces, the first with 0..2 sub-interfaces) and 0..1 node service written "
                "with add_network_node_sliver into a real model graph and rebuilt with build_deep_node_sliver; labels symbolic str len<=2, "
                "capacities unbounded ints")
def h_graph(nc: int, nif: int, nsub: int, nns: int, s: str, n: int) -> bool:
    """
    pre: 0 <= nc <= 2 and 0 <= nif <= 2 and 0 <= nsub <= 2 and 0 <= nns <= 1 and len(s) <= 2 and n >= 0
    post: R(_)
    """
    begin()
    t = ExperimentTopology()
    node = NodeSliver()
    node.set_name('node1')
    node.set_type(NodeType.VM)
    node.node_id = 'id-node1'
    node.set_capacities(Capacities(core=n, ram=n + 2))
    node.set_site(s)
    if nc:
        aci = AttachedComponentsInfo()
        for k in range(nc):
            c = ComponentSliver()
            c.set_name('comp%d' % k)
            c.set_type(ComponentType.SmartNIC)
            c.node_id = 'id-comp%d' % k
            c.set_labels(Labels(local_name=s))
            if k == 0:
                nsi = NetworkServiceInfo()
                nsi.add_network_service(_svc('comp0-svc', nif, nsub, s, n))
                c.set_network_service_info(nsi)
            aci.add_device(c)
        node.attached_components_info = aci
    if nns:
        nsi = NetworkServiceInfo()
        nsi.add_network_service(_svc('nodesvc', nif, 0, s, n))
        node.network_service_info = nsi
    t.graph_model.add_network_node_sliver(sliver=node)
    back = t.graph_model.build_deep_node_sliver(node_id='id-node1')
    if shape_of(back) != shape_of(node):
        return False
    if not same_value(back.get_capacities(), node.get_capacities()) or (back.get_site() or '') != s or back.get_name() != 'node1':
        return False
    if nc and back.attached_components_info.devices['comp0'].get_labels().local_name != s:
        return False
    return back.node_id == 'id-node1'


def elements(t):
    n1 = t.nodes['n1']
    return {
        'node': n1,
        'component': n1.components['nic2'],
        'service': t.network_services['sts1'],
        'interface': n1.components['nic2'].interface_list[1],
        'link': list(t.links.values())[0],
    }


KIND_OF = {'node': 'node', 'component': 'component', 'service': 'service', 'interface': 'interface', 'link': 'link'}
IDENTITY = ('name', 'type')


def props_of(kind):
    t = untraced(skeleton, 'S3')
    e = elements(t)[kind]
    return [p for p in sorted(type(e).list_properties()) if p not in SKIP]


def _mk_elem(kind, prop):
    def h_elem(n: int, s: str, i: int, b: bool) -> bool:
        """
        pre: n >= 0 and len(s) <= 2 and 0 <= i < 6
        post: R(_)
        """
        begin()
        t = skeleton('S3')
        e = elements(t)[kind]
        v = gen(kind, prop, n, s, i, b)
        before = {p: e.get_property(p) for p in ('name', 'type', 'details', 'stitch_node')}
        if prop in ('image_ref', 'image_type'):
            # the image reference and type are one graph property: they are settable together
            other = 'image_type' if prop == 'image_ref' else 'image_ref'
            e.set_properties(**{prop: v, other: 'qcow2' if other == 'image_type' else 'default_ubuntu'})
        else:
            e.set_property(prop, v)
        got = e.get_property(prop)
        # compare through a sliver holding the same value (setters may normalise, e.g. ip addresses)
        from harness.c02 import CLASSES
        ref = CLASSES[kind][0]()
        ref.set_property(prop, v)
        if not same_value(ref.get_property(prop), got):
            return False
        # the other properties of the element are untouched
        for p, old in before.items():
            if p != prop and not same_value(old, e.get_property(p)):
                return False
        if prop in IDENTITY:
            return True
        # unsetting makes it read as absent (image reference and type are one stored property, unset through image_ref)
        e.unset_property('image_ref' if prop == 'image_type' else prop)
        after = e.get_property(prop)
        if prop == 'stitch_node':
            return after is False or after is None
        if after is not None and not (prop == 'gateway' and after.lab is None):
            return False
        for p, old in before.items():
            if p != prop and not same_value(old, e.get_property(p)):
                return False
        return True
    return h_elem


for _kind in ('node', 'component', 'service', 'interface', 'link'):
    for _p in props_of(_kind):
        add("element/%s/%s" % (_kind, _p), _mk_elem(_kind, _p), timeout=600, encodes=ENC_G,
            tiers=("quick", "thorough") if _kind in ('node', 'service') else ("thorough",),
            bounds="%s element of skeleton S3: set_property(%s) with a value from symbolic scalars, get_property equal, other properties untouched, "
                   "unset_property -> absent" % (_kind, _p))


@harness("element/node/image_half_alone", timeout=120, encodes=ENC_G, finding="image",
         bounds="Node.set_property('image_ref' | 'image_type', v) on its own (symbolic choice, v symbolic str len<=2), then read back")
def h_image_alone(which: bool, s: str) -> bool:
    """
    pre: len(s) <= 2 and len(s) >= 1
    post: R(_)
    """
    begin()
    t = skeleton('S3')
    e = elements(t)['node']
    p = 'image_ref' if which else 'image_type'
    e.set_property(p, s)
    return e.get_property(p) == s


def _mk_stitch(kind):
    def h_stitch(k: int, s: str) -> bool:
        """
        pre: 0 <= k < 3 and len(s) <= 2
        post: R(_)
        """
        begin()
        t = skeleton('S3')
        e = elements(t)[kind]
        e.set_property('stitch_node', True)
        if k == 0:
            e.set_property('details', s)
        elif k == 1:
            e.set_property('labels', Labels(local_name=s))
        else:
            e.set_properties(details=s)
        return e.get_property('stitch_node') is True
    return h_stitch


for _kind in ('node', 'component', 'service', 'interface', 'link'):
    add("element/%s/stitch_node_survives_other_set" % _kind, _mk_stitch(_kind), timeout=200, encodes=ENC_G, finding="stitch",
        tiers=("quick", "thorough") if _kind in ('node', 'service') else ("thorough",),
        bounds="%s element: stitch_node set to true, then details / labels set (symbolic choice and value): stitch_node must still read true" % _kind)


EMPTYABLE = {'capacities': lambda: Capacities(), 'labels': lambda: Labels(), 'capacity_allocations': lambda: Capacities(core=0),
             'label_allocations': lambda: Labels()}


def _mk_empty(kind, prop):
    def h_empty(n: int, s: str, i: int, b: bool) -> bool:
        """
        pre: n >= 1 and len(s) <= 2 and 0 <= i < 6
        post: R(_)
        """
        begin()
        t = skeleton('S3')
        e = elements(t)[kind]
        e.set_property(prop, gen(kind, prop, n, s, i, b))
        if e.get_property(prop) is None:
            return False
        # overwriting with a value that has nothing set: it must not keep reading the old value
        e.set_property(prop, EMPTYABLE[prop]())
        after = e.get_property(prop)
        return after is None or after.to_json() == ''
    return h_empty


for _kind in ('node', 'component', 'service', 'interface', 'link'):
    for _p in EMPTYABLE:
        add("element/%s/overwrite_%s_with_empty" % (_kind, _p), _mk_empty(_kind, _p), timeout=1200, encodes=ENC_G,
            tiers=("quick", "thorough") if _kind in ('node', 'interface') else ("thorough",),
            bounds="%s element: %s set to a non-empty value from symbolic scalars, then to a value with nothing set: reads back as absent/empty" % (_kind, _p))
