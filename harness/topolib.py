"""Shared machinery for the topology-API properties (C07, C08, C09): skeleton slices built through the
real API (concretely, with tracing off, at the start of every explored path), canonical snapshots,
the published graph rules transliterated to Python, and an ownership-closure model for removals."""
from crosshair.tracers import NoTracing, is_tracing
from fim.user.topology import ExperimentTopology, TopologyException
from fim.user.node import NodeType
from fim.user.interface import InterfaceType
from fim.user.link import LinkType
from fim.user.network_service import ServiceType
from fim.slivers.attached_components import ComponentType
from fim.slivers.capacities_labels import Capacities, Labels
from fim.graph.abc_property_graph import ABCPropertyGraph

SITES = ['RENC', 'UKY', 'LBNL']
CLASSES = ["ConnectionPoint", "NetworkNode", "CompositeNode", "NetworkService", "Component", "Link"]
TYPES = {
    "NetworkNode": ["Server", "Switch", "VM", "Container", "NAS", "Facility"],
    "Component": ["SmartNIC", "GPU", "FPGA", "NVME", "SharedNIC", "Storage"],
    "ConnectionPoint": ["AccessPort", "TrunkPort", "ServicePort", "DedicatedPort", "SharedPort", "vInt", "FacilityPort", "SubInterface", "StitchPort"],
    "NetworkService": ["P4", "OVS", "MPLS", "VLAN", "L2Path", "L2Bridge", "L2PTP", "L2STS", "FABNetv4", "FABNetv6", "FABNetv4Ext",
                       "FABNetv6Ext", "L3VPN", "PortMirror", "L2Multisite"],
    "Link": ["L1Path", "L2Path", "Patch"],
}


import sys
from crosshair.tracers import SYS_MONITORING_TOOL_ID as _TOOL


def untraced(fn, *a, **kw):
    """run fn concretely.  Under CrossHair on Python 3.12 NoTracing only mutes the tracer: the per-instruction monitoring event still
    fires for every instruction (measured: 8x slower than plain Python).  The events are switched off for the duration of the call."""
    if is_tracing():
        with NoTracing():
            mon = getattr(sys, 'monitoring', None)
            if mon is not None and mon.get_tool(_TOOL) is not None:
                ev = mon.get_events(_TOOL)
                mon.set_events(_TOOL, 0)
                try:
                    return fn(*a, **kw)
                finally:
                    mon.set_events(_TOOL, ev)
                    mon.restart_events()
            return fn(*a, **kw)
    return fn(*a, **kw)


def _skeleton(kind):
    t = ExperimentTopology()
    if kind == 'S0':
        return t
    n1 = t.add_node(name='n1', site='RENC', ntype=NodeType.VM, capacities=Capacities(core=2, ram=8, disk=10))
    n2 = t.add_node(name='n2', site='UKY', ntype=NodeType.VM)
    if kind == 'S1':
        return t
    n1.add_component(name='nic1', ctype=ComponentType.SharedNIC, model='ConnectX-6')
    n1.add_component(name='nic2', ctype=ComponentType.SmartNIC, model='ConnectX-6')
    n1.add_component(name='gpu1', ctype=ComponentType.GPU, model='RTX6000')
    n2.add_component(name='nic1', ctype=ComponentType.SharedNIC, model='ConnectX-6')
    n2.add_component(name='nic3', ctype=ComponentType.SmartNIC, model='ConnectX-5')
    a = n1.components['nic1'].interface_list[0]
    b = n2.components['nic1'].interface_list[0]
    t.add_network_service(name='sts1', nstype=ServiceType.L2STS, interfaces=[a, b])
    if kind == 'S2':
        return t
    c = n1.components['nic2'].interface_list[0]
    d = n2.components['nic3'].interface_list[0]
    t.add_network_service(name='ptp1', nstype=ServiceType.L2PTP, interfaces=[c, d])
    p2 = n1.components['nic2'].interface_list[1]
    p2.add_child_interface(name='v1', labels=Labels(vlan='100'))
    p2.add_child_interface(name='v2', labels=Labels(vlan='200'))
    t.add_facility(name='fac1', site='RENC', capacities=Capacities(bw=10))
    f = t.facilities['fac1'].interface_list[0]
    t.add_network_service(name='br1', nstype=ServiceType.L2Bridge, interfaces=[f], site='RENC')     # a site the user supplied
    n3 = t.add_node(name='n3', site='RENC', ntype=NodeType.VM)
    n3.add_storage(name='vol1', labels=Labels(local_name='v'))
    _stale_handles(t)
    if kind == 'S3':
        return t
    # S4: + an FPGA with a connected port, a connected sub-interface, a link with three ends, two peered services
    n3.add_component(name='fpga1', ctype=ComponentType.FPGA, model='Xilinx-U280')
    fp = n3.components['fpga1'].interface_list
    t.network_services['br1'].connect_interface(fp[0])
    v1 = [k for k in p2.interface_list if k.name == 'v1'][0]
    t.network_services['br1'].connect_interface(v1)
    t.add_link(name='lan3', ltype=LinkType.L2Path, interfaces=[fp[1], n2.components['nic3'].interface_list[1], b2_free(t)])
    t.add_switch(name='sw1', site='RENC', nports=2)
    n2.components['nic3'].interface_list[1].labels = None      # a dedicated port that lost its labels (no local name to inherit)
    f1 = t.add_network_service(name='fab1', nstype=ServiceType.L3VPN)
    f2 = t.add_network_service(name='fab2', nstype=ServiceType.L3VPN)
    f1.peer(f2, labels=Labels(local_name='peer'))
    return t


def _stale_handles(t):
    """handles of elements that are no longer in the model (a user can hold on to them): an interface whose component was removed,
    a service that was removed"""
    n3 = t.nodes['n3']
    tmp = n3.add_component(name='tmpnic', ctype=ComponentType.SmartNIC, model='ConnectX-6')
    t.stale_iface = tmp.interface_list[0]
    n3.remove_component('tmpnic')
    t.stale_svc = t.add_network_service(name='tmpsvc', nstype=ServiceType.L2Bridge)
    t.remove_network_service('tmpsvc')


def b2_free(t):
    """an unconnected shared port for the third end of lan3: a fresh SharedNIC on n3"""
    n3 = t.nodes['n3']
    n3.add_component(name='nic4', ctype=ComponentType.SharedNIC, model='ConnectX-6')
    return n3.components['nic4'].interface_list[0]


def skeleton(kind):
    """(topology) built concretely through the real API"""
    return untraced(_skeleton, kind)


# ------------------------------------------------------------------ snapshots
def _snap(t):
    g = t.graph_model.storage.extract_graph(t.graph_model.graph_id)
    if g is None:
        return {}, []
    nodes = {}
    for n in g.nodes:
        p = dict(g.nodes[n])
        nodes[p['NodeID']] = p
    edges = []
    for a, b in g.edges:
        ia, ib = g.nodes[a]['NodeID'], g.nodes[b]['NodeID']
        edges.append((min(ia, ib), max(ia, ib), dict(g.edges[(a, b)])))
    edges.sort(key=lambda e: (e[0], e[1]))
    return nodes, edges


def snap(t):
    """canonical model snapshot: {NodeID: props}, sorted edge list.  Node ids are concrete strings; property VALUES may be symbolic."""
    return _snap(t)


def same_snap(a, b):
    na, ea = a
    nb, eb = b
    if sorted(na.keys()) != sorted(nb.keys()) or len(ea) != len(eb):
        return False
    for k in na:
        pa, pb = na[k], nb[k]
        if sorted(pa.keys()) != sorted(pb.keys()):
            return False
        for pk in pa:
            if pa[pk] != pb[pk]:
                return False
    for x, y in zip(ea, eb):
        if x[0] != y[0] or x[1] != y[1] or x[2] != y[2]:
            return False
    return True


# ------------------------------------------------------------------ published rules + containment (C07)
def neighbours(s, nid, rel=None, cls=None):
    nodes, edges = s
    out = []
    for a, b, p in edges:
        if rel is not None and p.get('Class') != rel:
            continue
        o = b if a == nid else a if b == nid else None
        if o is None:
            continue
        if cls is not None and nodes[o].get('Class') != cls:
            continue
        out.append(o)
    return out


def invariant_problems(t):
    """the published rules of graph_validation_rules.json that constrain structure (the per-type interface COUNT rules are
    validation-time constraints and belong to C10), plus the containment structure and name uniqueness of the property statement"""
    s = snap(t)
    nodes, edges = s
    bad = []
    ids = list(nodes.keys())
    g = t.graph_model.storage.extract_graph(t.graph_model.graph_id)
    if g is not None and len(g.nodes) != len(ids):
        bad.append("node ids are not distinct")
    for nid, p in nodes.items():
        for k in ('Class', 'Type', 'Name', 'NodeID'):
            if p.get(k) is None:
                bad.append("%s lacks %s" % (nid, k))
        c = p.get('Class')
        if c not in CLASSES:
            bad.append("%s has class %s" % (nid, c))
        elif c in TYPES and p.get('Type') not in TYPES[c]:
            bad.append("%s of class %s has type %s" % (nid, c, p.get('Type')))
    for nid, p in nodes.items():
        c = p.get('Class')
        if c == 'Component':
            owners = neighbours(s, nid, 'has', 'NetworkNode') + neighbours(s, nid, 'has', 'CompositeNode')
            if len(owners) != 1:
                bad.append("component %s has %d owners" % (nid, len(owners)))
        if c == 'Link':
            for o in neighbours(s, nid):
                if nodes[o].get('Class') != 'ConnectionPoint':
                    bad.append("link %s touches %s" % (nid, nodes[o].get('Class')))
        if c == 'ConnectionPoint':
            owners = neighbours(s, nid, 'connects', 'NetworkService') + \
                [o for o in neighbours(s, nid, 'connects', 'ConnectionPoint')]
            parents = neighbours(s, nid, 'connects', 'NetworkService')
            if p.get('Type') == 'SubInterface':
                par = [o for o in neighbours(s, nid, None, 'ConnectionPoint')]
                if len(par) != 1:
                    bad.append("sub-interface %s has %d parent interfaces" % (nid, len(par)))
            elif len(parents) != 1:
                bad.append("interface %s belongs to %d services" % (nid, len(parents)))
            if p.get('Type') == 'ServicePort':
                peers = 0
                for l in neighbours(s, nid, 'connects', 'Link'):
                    peers += len([o for o in neighbours(s, l, 'connects', 'ConnectionPoint') if o != nid])
                if peers != 1:
                    bad.append("service port %s has %d peers" % (nid, peers))
        if c == 'NetworkService':
            owners = neighbours(s, nid, 'has')
            if len(owners) > 1:
                bad.append("service %s has %d owners" % (nid, len(owners)))
    # name uniqueness per scope
    def dup(names):
        return len(names) != len(set(names))
    if dup([p['Name'] for p in nodes.values() if p.get('Class') == 'NetworkNode']):
        bad.append("duplicate node names")
    for nid, p in nodes.items():
        if p.get('Class') in ('NetworkNode',):
            if dup([nodes[o]['Name'] for o in neighbours(s, nid, 'has', 'Component')]):
                bad.append("duplicate component names in %s" % nid)
            if dup([nodes[o]['Name'] for o in neighbours(s, nid, 'has', 'NetworkService')]):
                bad.append("duplicate service names in %s" % nid)
        if p.get('Class') == 'NetworkService':
            if dup([nodes[o]['Name'] for o in neighbours(s, nid, 'connects', 'ConnectionPoint')]):
                bad.append("duplicate interface names in service %s" % nid)
    top = [p['Name'] for nid, p in nodes.items() if p.get('Class') == 'NetworkService' and not neighbours(s, nid, 'has')]
    if dup(top):
        bad.append("duplicate top-level service names")
    if dup([p['Name'] for p in nodes.values() if p.get('Class') == 'Link']):
        bad.append("duplicate link names")
    return bad


def views_problems(t):
    """the read-only views list exactly the elements present and cannot be used to modify the model"""
    s = snap(t)
    nodes, edges = s
    bad = []
    nn = sorted(p['Name'] for p in nodes.values() if p.get('Class') == 'NetworkNode' and p.get('Type') != 'Facility')
    fac = sorted(p['Name'] for p in nodes.values() if p.get('Class') == 'NetworkNode' and p.get('Type') == 'Facility')
    if sorted(t.nodes.keys()) != nn:
        bad.append("topology.nodes %s != %s" % (sorted(t.nodes.keys()), nn))
    facs = t.facilities
    if sorted(facs.keys() if facs else []) != fac:
        bad.append("topology.facilities")
    ln = sorted(p['Name'] for p in nodes.values() if p.get('Class') == 'Link')
    if sorted(t.links.keys()) != ln:
        bad.append("topology.links")
    allsvc = sorted(p['Name'] for nid, p in nodes.items() if p.get('Class') == 'NetworkService')
    if sorted(t.network_services.keys()) != allsvc:
        bad.append("topology.network_services %s != %s" % (sorted(t.network_services.keys()), allsvc))
    # interface_list: the interfaces of the (non-facility) nodes: those of their components' and their own services
    il = sorted(i.node_id for i in t.interface_list)
    exp = []
    for nid, p in nodes.items():
        if p.get('Class') != 'ConnectionPoint':
            continue
        svc = neighbours(s, nid, 'connects', 'NetworkService')
        if not svc:
            continue
        own = neighbours(s, svc[0], 'has')
        if not own:
            continue
        node = own[0] if nodes[own[0]].get('Class') == 'NetworkNode' else (neighbours(s, own[0], 'has', 'NetworkNode') or [None])[0]
        if node is not None and nodes[node].get('Type') != 'Facility':
            exp.append(nid)
    if il != sorted(exp):
        bad.append("topology.interface_list %s != %s" % (il, sorted(exp)))
    for view in (t.nodes, t.links, t.network_services):
        for mut in ('__setitem__', '__delitem__', 'pop', 'clear', 'update', 'popitem', 'setdefault'):
            try:
                getattr(view, mut)
                if mut in ('__setitem__',):
                    view['zz'] = 1
                elif mut == '__delitem__':
                    del view['zz']
                else:
                    getattr(view, mut)('zz') if mut in ('pop', 'setdefault') else getattr(view, mut)()
                bad.append("view allows %s" % mut)
            except (AttributeError, TypeError, KeyError, Exception) as e:
                if 'view allows' in str(e):
                    raise
    return bad


# ------------------------------------------------------------------ ownership closure (C08)
def owned_closure(s, root):
    """everything the element owns: components and services of a node, service of a component, interfaces of a service,
    sub-interfaces of an interface; plus, for every owned interface, its 2-ended links and the service-side ports peering with it"""
    nodes, edges = s
    owned = [root]
    frontier = [root]
    while frontier:
        cur = frontier.pop()
        c = nodes[cur].get('Class')
        kids = []
        if c in ('NetworkNode', 'CompositeNode'):
            kids = neighbours(s, cur, 'has', 'Component') + neighbours(s, cur, 'has', 'NetworkService')
        elif c == 'Component':
            kids = neighbours(s, cur, 'has', 'NetworkService')
        elif c == 'NetworkService':
            kids = neighbours(s, cur, 'connects', 'ConnectionPoint')
        elif c == 'ConnectionPoint':
            kids = [o for o in neighbours(s, cur, 'connects', 'ConnectionPoint') if nodes[o].get('Type') == 'SubInterface'
                    and nodes[cur].get('Type') != 'SubInterface']
        for k in kids:
            if k not in owned:
                owned.append(k)
                frontier.append(k)
    return owned


def links_of(s, cp):
    return neighbours(s, cp, 'connects', 'Link')


def expected_after_removal(s, gone):
    """snapshot with the ids in `gone` (and their incident edges) removed"""
    nodes, edges = s
    nn = {k: v for k, v in nodes.items() if k not in gone}
    ee = [e for e in edges if e[0] not in gone and e[1] not in gone]
    return nn, ee
