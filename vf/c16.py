"""C16 layer 1 (engine E2): the language each validator ACCEPTS, rebuilt from the live tree (pattern
objects, the AST of the call that applies them, the AST of the range lambdas), compared by z3 with the
pinned documented formats in spec/c16_formats.json.  A `sat` answer is a concrete string, replayed
through the real constructor before it is reported."""
import ast
import inspect
import json
import os
import re
import textwrap
import time

import z3

from vf.rx2z3 import Alphabet, RxTranslator, IntLang, CannotEncode, collect_atoms, INT_ATOMS, value_of_digits, sre_parse

SPEC = json.load(open(os.path.join(os.path.dirname(__file__), "..", "spec", "c16_formats.json")))
Z3_TIMEOUT_MS = 60000
PART_DIGITS = 4   # digits per part of an a-b value; justified per field by an inclusion query (else CANNOT-ENCODE)


# --------------------------------------------------------------------------- extraction from the live tree
def _method_ast(fn):
    src = textwrap.dedent(inspect.getsource(fn))
    return ast.parse(src).body[0]


def _re_calls(fn_ast):
    """all calls of re.match / re.fullmatch / re.search / <compiled>.match ... in a function"""
    out = []
    for node in ast.walk(fn_ast):
        if isinstance(node, ast.Call) and isinstance(node.func, ast.Attribute) and node.func.attr in ("match", "fullmatch", "search"):
            out.append(node)
    return out


def applied_pattern(call, env):
    """(method, effective pattern string) of one regex application, evaluating the pattern expression
    of the real source in `env`"""
    method = call.func.attr
    recv = call.func.value
    if isinstance(recv, ast.Name) and recv.id == "re":
        pat = eval(compile(ast.Expression(call.args[0]), "<pattern>", "eval"), dict(env))
        flags = 0
        if len(call.args) > 2 or call.keywords:
            raise CannotEncode("regex flags / keywords at the call site")
    else:
        comp = eval(compile(ast.Expression(recv), "<compiled>", "eval"), dict(env))
        pat, flags = comp.pattern, comp.flags & ~re.UNICODE
        if flags:
            raise CannotEncode("compiled pattern with flags")
    if not isinstance(pat, str):
        raise CannotEncode("pattern expression did not evaluate to str")
    return method, pat


def _const(node):
    """integer value of a constant expression (Constant, unary minus, a ** b)"""
    v = eval(compile(ast.Expression(node), "<const>", "eval"), {})
    if not isinstance(v, int):
        raise CannotEncode("non-int bound")
    return v


def _int_target(node, param):
    """int(<param>) -> ('whole',) ; int(<param>.split('-')[i]) -> ('part', i)"""
    if not (isinstance(node, ast.Call) and isinstance(node.func, ast.Name) and node.func.id == "int" and len(node.args) == 1):
        return None
    a = node.args[0]
    if isinstance(a, ast.Name) and a.id == param:
        return ("whole",)
    if (isinstance(a, ast.Subscript) and isinstance(a.value, ast.Call) and isinstance(a.value.func, ast.Attribute)
            and a.value.func.attr == "split" and isinstance(a.value.func.value, ast.Name) and a.value.func.value.id == param
            and len(a.value.args) == 1 and isinstance(a.value.args[0], ast.Constant) and a.value.args[0].value == "-"):
        idx = a.slice.value if isinstance(a.slice, ast.Constant) else None
        if idx in (0, 1):
            return ("part", idx)
    raise CannotEncode("int() argument shape")


def lambda_constraints(lam):
    """translate `lambda v: True if <chain of comparisons on int(..)> else False` into
    [('range', target, lo, hi) | ('le', target, target)]"""
    param = lam.args.args[0].arg
    body = lam.body
    if isinstance(body, ast.IfExp):
        if not (isinstance(body.body, ast.Constant) and body.body.value is True
                and isinstance(body.orelse, ast.Constant) and body.orelse.value is False):
            raise CannotEncode("lambda IfExp shape")
        body = body.test
    tests = body.values if isinstance(body, ast.BoolOp) and isinstance(body.op, ast.And) else [body]
    if isinstance(body, ast.BoolOp) and not isinstance(body.op, ast.And):
        raise CannotEncode("lambda uses or")
    cons = []
    for t in tests:
        if not isinstance(t, ast.Compare):
            raise CannotEncode("lambda test is not a comparison")
        terms = [t.left] + list(t.comparators)
        for (l, op, r) in zip(terms, t.ops, terms[1:]):
            lt, rt = _int_target(l, param), _int_target(r, param)
            if not isinstance(op, (ast.Lt, ast.LtE, ast.Gt, ast.GtE)):
                raise CannotEncode("comparison operator")
            strict = isinstance(op, (ast.Lt, ast.Gt))
            if isinstance(op, (ast.Gt, ast.GtE)):
                l, r, lt, rt = r, l, rt, lt
            if lt is None and rt is not None:          # const <(=) int(x)
                cons.append(("range", rt, _const(l) + (1 if strict else 0), None))
            elif lt is not None and rt is None:        # int(x) <(=) const
                cons.append(("range", lt, None, _const(r) - (1 if strict else 0)))
            elif lt is not None and rt is not None:
                if strict:
                    raise CannotEncode("strict order between two fields")
                cons.append(("le", lt, rt))
            else:
                raise CannotEncode("constant comparison")
    merged = {}
    order = []
    for c in cons:
        if c[0] == "range":
            lo, hi = merged.get(c[1], (None, None))
            if c[2] is not None:
                lo = c[2] if lo is None else max(lo, c[2])
            if c[3] is not None:
                hi = c[3] if hi is None else min(hi, c[3])
            merged[c[1]] = (lo, hi)
        else:
            order.append(c)
    out = []
    for tgt, (lo, hi) in merged.items():
        if lo is None or hi is None:
            raise CannotEncode("one-sided range")
        out.append(("range", tgt, lo, hi))
    return out + order


def live_label_validators():
    from fim.slivers.capacities_labels import Labels
    cls_ast = ast.parse(textwrap.dedent(inspect.getsource(Labels))).body[0]
    lambdas = {}
    for node in cls_ast.body:
        if isinstance(node, ast.Assign) and any(isinstance(t, ast.Name) and t.id == "LAMBDA_VALIDATORS" for t in node.targets):
            for k, v in zip(node.value.keys, node.value.values):
                lam = v.elts[0]
                if not isinstance(lam, ast.Lambda):
                    raise CannotEncode("LAMBDA_VALIDATORS entry is not a lambda")
                lambdas[k.value] = lam
    if set(lambdas) != set(Labels.LAMBDA_VALIDATORS):
        raise CannotEncode("LAMBDA_VALIDATORS could not be read from the source")
    set_fields = _method_ast(Labels._set_fields)
    calls = _re_calls(set_fields)
    if not calls:
        raise CannotEncode("no regex application found in Labels._set_fields")
    fields = sorted(Labels().__dict__.keys())
    out = {}
    for f in fields:
        apps = []
        if Labels.VALIDATORS.get(f) is not None:
            for c in calls:
                apps.append(applied_pattern(c, {"self": Labels(), "k": f, "re": re}))
        out[f] = {"regex_apps": apps, "lambda": lambdas.get(f)}
    return out


# --------------------------------------------------------------------------- building the queries
class Ctx:
    def __init__(self, patterns):
        atoms = set(INT_ATOMS) | {("lit", 10), ("lit", ord("-"))}
        for p in patterns:
            collect_atoms(sre_parse.parse(p), atoms)
        self.al = Alphabet(atoms)
        self.tr = RxTranslator(self.al)
        self.il = IntLang(self.al)
        self.queries = 0
        self.solver_s = 0.0

    def check(self, *assertions):
        s = z3.Solver()
        s.set("timeout", Z3_TIMEOUT_MS)
        for a in assertions:
            s.add(a)
        t = time.time()
        r = s.check()
        self.solver_s += time.time() - t
        self.queries += 1
        return str(r), (s.model() if str(r) == "sat" else None)


def accept_term(ctx, s, regex_langs, constraints, aux_prefix):
    """z3 Bool: the string s passes every regex application in regex_langs and the int() constraints.
    Returns (term, facts, guard): `facts` pin the decomposition variables a,b,t of s = a-b[newline] whenever s
    passes the regexes (asserted outside any negation); `guard` is the shape language whose inclusion
    justifies that (checked by the caller)."""
    rx = [z3.InRe(s, L) for L in regex_langs]
    parts = list(rx)
    facts, guard = [], None
    whole = [c for c in constraints if c[0] == "range" and c[1] == ("whole",)]
    for (_, _, lo, hi) in whole:
        parts.append(z3.InRe(s, ctx.il.in_range(lo, hi)))
    partc = [c for c in constraints if not (c[0] == "range" and c[1] == ("whole",))]
    if partc:
        K = PART_DIGITS
        a, b, t = z3.String(aux_prefix + "_a"), z3.String(aux_prefix + "_b"), z3.String(aux_prefix + "_t")
        dash = z3.StringVal(ctx.al.reps_of(("lit", ord("-")))[0])
        nl = z3.StringVal(ctx.al.reps_of(("lit", 10))[0])
        dk = z3.Loop(ctx.il.anyd, 1, K)
        shape = z3.And(s == z3.Concat(a, dash, b, t), z3.InRe(a, dk), z3.InRe(b, dk), z3.Or(t == z3.StringVal(""), t == nl))
        facts.append(z3.Implies(z3.And(*rx) if rx else z3.BoolVal(True), shape))
        guard = z3.Concat(dk, z3.Re(dash), dk, z3.Option(z3.Re(nl)))
        vals = {0: value_of_digits(ctx.al, a, K), 1: value_of_digits(ctx.al, b, K)}
        for c in partc:
            if c[0] == "range":
                parts.append(z3.And(vals[c[1][1]] >= c[2], vals[c[1][1]] <= c[3]))
            else:
                parts.append(vals[c[1][1]] <= vals[c[2][1]])
    return (z3.And(*parts) if parts else z3.BoolVal(True)), facts, guard


def decide_field(ctx, code_langs, code_cons, spec_langs, spec_cons, maxlen, exclude_res=()):
    """exists s (len <= maxlen): accepted by the code  XOR  in the documented domain ?"""
    s = z3.String("s")
    base = [z3.Length(s) <= maxlen, z3.InRe(s, z3.Star(ctx.tr.sigma))]
    for ex in exclude_res:
        base.append(z3.Not(z3.InRe(s, ex)))
    ca, cf, cg = accept_term(ctx, s, code_langs, code_cons, "c")
    sa, sf, sg = accept_term(ctx, s, spec_langs, spec_cons, "c")   # same decomposition variables: the split is unique
    for (langs, guard, who) in ((code_langs, cg, "code"), (spec_langs, sg, "spec")):
        if guard is not None:
            if not langs:
                raise CannotEncode("part-wise integer constraints without a guarding regex (%s)" % who)
            r, _ = ctx.check(*(base + [z3.InRe(s, L) for L in langs] + [z3.Not(z3.InRe(s, guard))]))
            if r != "unsat":
                raise CannotEncode("regex of %s does not confine the value to <digits>-<digits> (%s)" % (who, r))
    facts = cf + sf
    out = {}
    for (label, f) in (("code_accepts_outside_domain", z3.And(ca, z3.Not(sa))), ("code_rejects_inside_domain", z3.And(sa, z3.Not(ca)))):
        r, m = ctx.check(*(base + facts + [f]))
        out[label] = (r, z3_unescape(m[s].as_string()) if m is not None else None)
    # vacuity: both languages are inhabited
    r1, _ = ctx.check(*(base + facts + [ca]))
    r2, _ = ctx.check(*(base + facts + [sa]))
    out["inhabited"] = (r1, r2)
    return out


def encoded_accepts(ctx, code_langs, code_cons, text):
    """evaluate the ENCODING on one concrete string (translator validation)"""
    s = z3.String("s")
    ca, cf, cg = accept_term(ctx, s, code_langs, code_cons, "c")
    r, _ = ctx.check(s == z3.StringVal(ctx.al.project(text)), *cf, ca)
    return r == "sat"


def z3_unescape(t):
    """z3 prints non-ASCII / control characters as \\u{..}"""
    return re.sub(r"\\u\{([0-9a-fA-F]+)\}", lambda m: chr(int(m.group(1), 16)), t)


# --------------------------------------------------------------------------- concrete side (replay / translator validation)
def spec_constraints(sp):
    cons = []
    if "range" in sp:
        cons.append(("range", ("whole",), sp["range"][0], sp["range"][1]))
    if "part_range" in sp:
        cons += [("range", ("part", 0), *sp["part_range"]), ("range", ("part", 1), *sp["part_range"])]
        if sp.get("ordered"):
            cons.append(("le", ("part", 0), ("part", 1)))
    return cons


def spec_accepts_concrete(sp, text):
    if re.fullmatch(sp["pattern"], text) is None:
        return False
    try:
        if "range" in sp and not (sp["range"][0] <= int(text) <= sp["range"][1]):
            return False
        if "part_range" in sp:
            a, b = (int(x) for x in text.split("-")[:2])
            lo, hi = sp["part_range"]
            if not (lo <= a <= hi and lo <= b <= hi):
                return False
            if sp.get("ordered") and not a <= b:
                return False
    except (ValueError, IndexError):
        return False
    return True


def code_accepts_concrete(kind, name, text, form="scalar"):
    """drive the REAL entry point with one concrete string"""
    try:
        if kind == "label":
            from fim.slivers.capacities_labels import Labels
            good = SPEC["labels"][name].get("example_member")
            lab = Labels(**{name: text if form == "scalar" else [text]})
            return getattr(lab, name) == (text if form == "scalar" else [text])
        if kind == "tag":
            from fim.slivers.tags import Tags
            return list(Tags(text).tags) == [text]
        if kind == "name":
            import importlib
            mod = {"NodeSliver": "fim.slivers.network_node", "NetworkServiceSliver": "fim.slivers.network_service",
                   "NetworkLinkSliver": "fim.slivers.network_link", "InterfaceSliver": "fim.slivers.interface_info",
                   "ComponentSliver": "fim.slivers.attached_components"}[name]
            sl = getattr(importlib.import_module(mod), name)()
            sl.set_name(text)
            return sl.get_name() == text
    except Exception:
        return False
    raise ValueError(kind)


def sample_strings(sp_pattern, example, extra=()):
    """members and near-misses for the translator validation (deterministic)"""
    base = [example] if isinstance(example, str) else []
    base += list(extra)
    out = []
    for b in base:
        out += [b, b + "\n", "\n" + b, " " + b, b + " ", b + "x", b[:-1], b[1:], b.upper(), b.replace("0", "٠"),
                b.replace("1", "١"), b + "\n\n", b.replace(".", "x"), b.replace(":", "."), b.replace("-", "_"), b + b,
                b.replace("-", "--"), b[::-1]]
    out += ["", "\n", "0", "00", "7", "8", "-1", "-0", "+3", " 3", "3 ", "0_1", "٣", "4096", "4097", "04096", "9999", "10000",
            "4294967295", "4294967296", "0004294967295", "1-2", "2-1", "0-4096", "0-4097", "1-2-3", "1-", "-2", "12\n",
            "ab", "a", "a-b", "a b", "ä", "a\n", "ab\n", "_" * 3, "x" * 255, "x" * 256, "a.b", "a/b", "a+b", "a:b"]
    seen, res = set(), []
    for t in out:
        if t not in seen:
            seen.add(t)
            res.append(t)
    return res


# --------------------------------------------------------------------------- layer 1 driver
def _names_classes():
    from fim.slivers.network_node import NodeSliver
    from fim.slivers.network_service import NetworkServiceSliver
    from fim.slivers.network_link import NetworkLinkSliver
    from fim.slivers.interface_info import InterfaceSliver
    from fim.slivers.attached_components import ComponentSliver
    return [NodeSliver, NetworkServiceSliver, NetworkLinkSliver, InterfaceSliver, ComponentSliver]


def gather_targets():
    """[(key, kind, name, [(method, pattern)], lambda_ast_or_None, spec_entry, maxlen)] from the live tree"""
    from fim.slivers.tags import Tags
    targets = []
    live = live_label_validators()
    for f, v in sorted(live.items()):
        sp = SPEC["labels"].get(f)
        if not v["regex_apps"] and v["lambda"] is None:
            if sp is not None:
                targets.append(("lang/labels.%s" % f, "label", f, None, None, sp, 64))   # documented format but no validator at all
            continue
        if sp is None:
            raise CannotEncode("label field %s is validated by the code but has no pinned documented format" % f)
        apps = v["regex_apps"] or [None]
        for i, app in enumerate(apps):
            targets.append(("lang/labels.%s/app%d" % (f, i), "label", f, [app] if app else [], v["lambda"], sp, 64))
    chk = _method_ast(Tags._check)
    calls = _re_calls(chk)
    if len(calls) != 1:
        raise CannotEncode("Tags._check: expected exactly one regex application")
    targets.append(("lang/tags", "tag", "tag", [applied_pattern(calls[0], {"Tags": Tags, "re": re})], None, SPEC["tags"], 300))
    for cls in _names_classes():
        m = _method_ast(cls.set_name)
        calls = _re_calls(m)
        if len(calls) != 1:
            raise CannotEncode("%s.set_name: expected exactly one regex application" % cls.__name__)
        targets.append(("lang/name.%s" % cls.__name__, "name", cls.__name__, [applied_pattern(calls[0], {"self": cls(), "re": re})],
                        None, SPEC["names"][cls.__name__], 300))
    return targets


def size_limit_results():
    """JSONData.MAX_SIZE / boot script: largest accepted length, read from the comparison in the source, vs the pinned limit"""
    from fim.slivers.json_data import JSONData, UserData, MeasurementData, LayoutData
    from fim.slivers.base_sliver import BaseSliver
    out = []
    init = _method_ast(JSONData.__init__)
    cmps = [n for n in ast.walk(init) if isinstance(n, ast.Compare) and isinstance(n.left, ast.Call)
            and isinstance(n.left.func, ast.Name) and n.left.func.id == "len"]
    sb = _method_ast(BaseSliver.set_boot_script)
    bcmps = [n for n in ast.walk(sb) if isinstance(n, ast.Compare) and isinstance(n.left, ast.Call)
             and isinstance(n.left.func, ast.Name) and n.left.func.id == "len"]
    jobs = [("size/%s" % c.__name__, cmps, c.MAX_SIZE, SPEC["sizes"][c.__name__], "reject") for c in (UserData, MeasurementData, LayoutData)]
    jobs.append(("size/boot_script", bcmps, BaseSliver.BOOST_SCRIPT_SIZE, SPEC["sizes"]["boot_script"], "accept"))
    for key, cs, live_limit, pinned_max, polarity in jobs:
        t0 = time.time()
        n = z3.Int("n")
        rec = {"key": key, "bounds": "every length n >= 0 (unbounded int)", "encodes": ["fim.slivers.json_data.JSONData.__init__", "fim.slivers.base_sliver.BaseSliver.set_boot_script"]}
        try:
            if not cs:
                raise CannotEncode("no length comparison found")
            terms = []
            for c in cs:
                if len(c.ops) != 1:
                    raise CannotEncode("chained length comparison")
                op = c.ops[0]
                rel = {ast.Gt: n > live_limit, ast.GtE: n >= live_limit, ast.Lt: n < live_limit, ast.LtE: n <= live_limit}.get(type(op))
                if rel is None:
                    raise CannotEncode("length comparison operator")
                terms.append(z3.Not(rel) if polarity == "reject" else rel)
            code_ok = z3.And(*terms)
            s = z3.Solver()
            s.add(n >= 0, code_ok != (n <= pinned_max))
            r = str(s.check())
            rec.update(verdict={"unsat": "confirmed", "sat": "refuted"}.get(r, "unknown"), solver_checks=1, paths=1, reach=1,
                       solver_s=round(time.time() - t0, 3))
            if r == "sat":
                rec["witness"] = "length %s" % s.model()[n]
                rec["message"] = "accepted lengths differ from the documented limit %d at %s" % (pinned_max, rec["witness"])
                rec["replay"] = {"reproduced": True, "note": "limit is a source constant; comparison read from the AST"}
        except CannotEncode as e:
            rec.update(verdict="error", message="CANNOT-ENCODE " + str(e))
        out.append(rec)
    return out


def layer1(tier, known=()):
    t_all = time.time()
    results = []
    try:
        targets = gather_targets()
    except CannotEncode as e:
        return [{"key": "lang/extract", "verdict": "error", "message": "CANNOT-ENCODE " + str(e), "bounds": "", "encodes": []}]
    pats = []
    for (_, _, _, apps, _, sp, _) in targets:
        pats += [p for (_, p) in (apps or [])] + [sp["pattern"]]
    for f in known:
        if f.get("exclude_regex"):
            pats.append(f["exclude_regex"])
    try:
        ctx = Ctx(pats)
    except CannotEncode as e:
        return [{"key": "lang/alphabet", "verdict": "error", "message": "CANNOT-ENCODE " + str(e), "bounds": "", "encodes": []}]
    enc_names = ["fim.slivers.capacities_labels.Labels._set_fields", "fim.slivers.capacities_labels.Labels", "fim.slivers.tags.Tags._check",
                 "fim.slivers.base_sliver.BaseSliver.set_name"]
    for (key, kind, name, apps, lam, sp, maxlen) in targets:
        q0, s0 = ctx.queries, ctx.solver_s
        rec = {"key": key, "encodes": enc_names,
               "bounds": "every string of length <= %d over all code points (minterm alphabet of %d classes); applied as %s"
                         % (maxlen, len(ctx.al.classes), apps)}
        try:
            if apps is None:
                rec.update(verdict="refuted", message="field has a documented format but the code validates nothing",
                           witness="", replay={"reproduced": not spec_accepts_concrete(sp, "") and code_accepts_concrete(kind, name, "")})
                results.append(rec)
                continue
            code_langs = [ctx.tr.language(p, m) for (m, p) in apps]
            code_cons = lambda_constraints(lam) if lam is not None else []
            spec_langs = [ctx.tr.language(sp["pattern"], "fullmatch")]
            spec_cons = spec_constraints(sp)
            excl, kf_lines = [], []
            for f in known:
                if f.get("harness") == key and f.get("exclude_regex") is not None:
                    w = f["witness"]
                    if code_accepts_concrete(kind, name, w) != spec_accepts_concrete(sp, w):
                        excl.append(ctx.tr.language(f["exclude_regex"], "fullmatch"))
                        kf_lines.append("KNOWN-FINDING: property=C16 %s [%s]" % (f["what"], f["key"]))
            rec["known_lines"] = kf_lines
            out = decide_field(ctx, code_langs, code_cons, spec_langs, spec_cons, maxlen, excl)
            # translator validation on concrete strings (Serval-style): encoding vs the real code, spec encoding vs re
            mism = []
            nval = 0
            samples = sample_strings(sp["pattern"], sp.get("example"), [w for (_, w) in (out["code_accepts_outside_domain"], out["code_rejects_inside_domain"]) if w])
            if tier == "quick":
                samples = samples[:40]
            for t in samples:
                try:
                    ctx.al.project(t)
                except KeyError:
                    continue
                nval += 1
                enc = encoded_accepts(ctx, code_langs, code_cons, t)
                real = code_accepts_concrete(kind, name, t, "list" if key.endswith("app0") and kind == "label" else "scalar")
                if enc != real:
                    mism.append(("code", t, enc, real))
                encs = encoded_accepts(ctx, spec_langs, spec_cons, t)
                reals = spec_accepts_concrete(sp, t)
                if encs != reals:
                    mism.append(("spec", t, encs, reals))
            rec["translator_validation"] = {"strings": nval, "disagreements": mism[:5]}
            rec["solver_checks"] = ctx.queries - q0
            rec["solver_s"] = round(ctx.solver_s - s0, 2)
            rec["paths"] = ctx.queries - q0
            rec["reach"] = 1 if out["inhabited"] == ("sat", "sat") else 0
            if mism:
                rec.update(verdict="error", message="encoding disagrees with the real code on %r" % (mism[:3],))
            elif out["inhabited"] != ("sat", "sat"):
                rec.update(verdict="error", message="vacuous: a language is empty or undecided %r" % (out["inhabited"],))
            else:
                bad = [(lbl, w) for lbl in ("code_accepts_outside_domain", "code_rejects_inside_domain") for (r, w) in [out[lbl]] if r == "sat"]
                unk = [lbl for lbl in ("code_accepts_outside_domain", "code_rejects_inside_domain") if out[lbl][0] not in ("sat", "unsat")]
                if bad:
                    lbl, w = bad[0]
                    real = code_accepts_concrete(kind, name, w)
                    sp_ok = spec_accepts_concrete(sp, w)
                    rec.update(verdict="refuted", witness=w, message="%s: %r (documented pattern %s)" % (lbl, w, sp["pattern"]),
                               replay={"reproduced": real != sp_ok, "code_accepts": real, "in_documented_domain": sp_ok, "kind": kind, "name": name})
                elif unk:
                    rec.update(verdict="unknown", message="z3 unknown for %s" % unk)
                else:
                    rec.update(verdict="confirmed", message="unsat both ways: accepted language == documented domain")
        except CannotEncode as e:
            rec.update(verdict="error", message="CANNOT-ENCODE " + str(e))
        results.append(rec)
    results += size_limit_results()
    for r in results:
        r.setdefault("known_lines", [])
    results.append({"key": "lang/_alphabet", "verdict": "info", "classes": len(ctx.al.classes), "total_queries": ctx.queries,
                    "total_solver_s": round(ctx.solver_s, 2), "wall_s": round(time.time() - t_all, 1)})
    return results


def run(pid, tier, seed):
    from vf.run import check_property, load_known
    known = load_known(pid)
    return check_property(pid, tier, seed, extra=lambda: layer1(tier, known))
