"""storebmc - bounded model checking of the in-memory stores' identifier allocation under thread
interleavings (C20 b, engine E2).

The methods of the two store classes are read from the live tree; each method body is walked
statement by statement (try/finally flattened: the finally block runs at the end of every path) and
every statement is classified into an abstract action on (lock, id counter(s), node table).  Statements
that touch store state but match no pattern abort with CannotEncode.  Atomicity assumption: one source
statement is one step (CPython switches threads between byte codes, but a read-modify-write of an int
attribute inside one statement is treated as atomic, and `acquire` blocks).

The schedule (which thread moves at each global step) is symbolic; z3 is asked for a schedule after which
two allocated internal ids coincide, a returned id differs from the id of the node that was added, or the
lock is still held.  `unsat` = none exists for this bound.  A `sat` schedule is replayed with real threads
on the real store under a sys.settrace line scheduler before it is reported."""
import ast
import inspect
import sys
import textwrap
import threading
import time

import z3


class CannotEncode(Exception):
    pass


# --------------------------------------------------------------------------- statement classification
def _src(node):
    return ast.unparse(node)


def classify(stmt, flavour):
    """-> list of actions for one statement.  Actions: ('acq',) ('rel',) ('read',) ('inc', kind) ('add_local',) ('add_counter',)
    ('ret_counter',) ('ret_local',) ('del',) ('set_counter',) ('nop',)"""
    s = _src(stmt)
    if 'self.lock.acquire' in s:
        return [('acq',)]
    if 'self.lock.release' in s:
        return [('rel',)]
    counter = 'self.start_id' if flavour == 'shared' else 'self.graph_node_ids'
    touches_counter = counter in s
    if isinstance(stmt, ast.Return):
        if stmt.value is None:
            return [('ret_none',)]
        if touches_counter:
            return [('ret_counter',)]
        return [('ret_local',)] if 'new_id' in s else [('ret_none',)]
    if isinstance(stmt, ast.AugAssign) and touches_counter:
        return [('inc', 'one')]
    if isinstance(stmt, ast.Assign):
        tgt = _src(stmt.targets[0])
        val = _src(stmt.value)
        if tgt.startswith(counter):
            if counter in val:
                if 'len(' in val:
                    return [('inc', 'k')]
                if '+ 1' in val:
                    return [('inc', 'one')]
                raise CannotEncode("counter update %s" % s)
            if flavour == 'disjoint' and 'len(' in val:
                return [('set_counter',)]
            raise CannotEncode("counter assignment %s" % s)
        if touches_counter:
            # a local receives the counter value: new_id = ... / temp_graph = convert(..., first_label=self.start_id)
            return [('read',)]
        if 'convert_node_labels_to_integers' in val:
            return [('read_const',)]      # disjoint: relabel from 1
        if tgt.startswith('self.graphs'):
            if 'nx.Graph()' in val:
                return [('del',)]
            if 'temp_graph' in val:
                return [('add_local',)]
            raise CannotEncode("graph table assignment %s" % s)
        return [('nop',)]
    if isinstance(stmt, ast.Expr):
        if '.add_nodes_from' in s:
            return [('add_local',)]
        if '.add_node(' in s:
            return [('add_counter',)] if touches_counter else [('add_local',)]
        if '__del_graph_nl' in s or '.remove_nodes_from' in s or '.clear()' in s or '.pop(' in s:
            return [('del',)]
        if '.add_edges_from' in s or 'log.' in s:
            return [('nop',)]
        if 'self.' in s and ('graphs' in s or counter in s):
            raise CannotEncode("store statement %s" % s)
        return [('nop',)]
    if isinstance(stmt, ast.Raise):
        return [('nop',)]
    if touches_counter or 'self.graphs' in s and not isinstance(stmt, (ast.If, ast.For, ast.Try)):
        raise CannotEncode("store statement %s" % s)
    return [('nop',)]


def linearize(body, flavour, out, lines):
    """flatten a method body into (action, lineno) steps following the no-exception path with graph id NOT present
    (first import) and, for `if` statements on presence, the configured branch"""
    for stmt in body:
        if isinstance(stmt, ast.Try):
            linearize(stmt.body, flavour, out, lines)
            linearize(stmt.finalbody, flavour, out, lines)
        elif isinstance(stmt, ast.If):
            cond = _src(stmt.test)
            out.append((('nop',), stmt.lineno))
            if 'in self.graphs' in cond or 'existing_graph_nodes' in cond:
                # graph-present branch is not taken (fresh graph ids in the BMC scenarios)
                linearize(stmt.orelse, flavour, out, lines)
            elif 'graph_nodes' in cond or 'len(' in cond:
                linearize(stmt.body, flavour, out, lines)
            else:
                linearize(stmt.body, flavour, out, lines)
        elif isinstance(stmt, ast.For):
            out.append((('nop',), stmt.lineno))      # the NodeID check loop: local
        elif isinstance(stmt, ast.Expr) and isinstance(stmt.value, ast.Constant):
            continue
        else:
            for act in classify(stmt, flavour):
                out.append((act, stmt.lineno))
    return out


def method_steps(cls, name, flavour):
    fn = getattr(cls, name)
    src = textwrap.dedent(inspect.getsource(fn))
    tree = ast.parse(src).body[0]
    first = inspect.getsourcelines(fn)[1]
    steps = linearize(tree.body, flavour, [], None)
    # keep only state-relevant steps (pure local steps commute with everything)
    rel = [(a, first + ln - 1) for (a, ln) in steps if a[0] != 'nop']
    return rel


def store_classes():
    from fim.graph.networkx_property_graph import NetworkXGraphStorage
    from fim.graph.networkx_property_graph_disjoint import NetworkXGraphStorageDisjoint
    sh = NetworkXGraphStorage()
    dj = NetworkXGraphStorageDisjoint()
    return {'shared': type(sh.storage_instance), 'disjoint': type(dj.storage_instance)}


# --------------------------------------------------------------------------- BMC
def bmc(flavour, programs, K=2, timeout_ms=120000):
    """programs: per thread a list of (op name, graph id index).  Returns (verdict, schedule or None, info)."""
    cls = store_classes()[flavour]
    ops = {}
    for th in programs:
        for (op, gi) in th:
            if op not in ops:
                ops[op] = method_steps(cls, op, flavour)
    T = len(programs)
    # flatten each thread's program into one step list
    prog = []
    for th in programs:
        steps = []
        for oi, (op, gi) in enumerate(th):
            for (act, line) in ops[op]:
                steps.append((act, line, oi, op, gi))
        prog.append(steps)
    total = sum(len(p) for p in prog)
    NG = 2
    # per-graph store: an import creates its own graph (own id space and counter); blank nodes go to graph gi
    extra = {}
    if flavour == 'disjoint':
        for t, th in enumerate(programs):
            for oi, (op, gi) in enumerate(th):
                if op.startswith('add_graph'):
                    extra[(t, oi)] = NG + len(extra)
    s = z3.Solver()
    s.set("timeout", timeout_ms)
    sched = [z3.Int("sched_%d" % g) for g in range(total)]
    # state at each global step
    lock = [z3.Int("lock_%d" % g) for g in range(total + 1)]
    ctr = [[z3.Int("ctr_%d_%d" % (g, q)) for q in range((NG + len(extra)) if flavour == 'disjoint' else 1)] for g in range(total + 1)]
    pc = [[z3.Int("pc_%d_%d" % (g, t)) for t in range(T)] for g in range(total + 1)]
    # per (thread, op instance): local first id, id of added node(s), returned id
    loc = {}
    added = {}
    ret = {}
    for t in range(T):
        for oi in range(len(programs[t])):
            loc[(t, oi)] = [z3.Int("loc_%d_%d_%d" % (g, t, oi)) for g in range(total + 1)]
            added[(t, oi)] = [z3.Int("add_%d_%d_%d" % (g, t, oi)) for g in range(total + 1)]
            ret[(t, oi)] = [z3.Int("ret_%d_%d_%d" % (g, t, oi)) for g in range(total + 1)]
    s.add(lock[0] == 0)
    for q in range(len(ctr[0])):
        s.add(ctr[0][q] == 1)
    for t in range(T):
        s.add(pc[0][t] == 0)
        for oi in range(len(programs[t])):
            s.add(loc[(t, oi)][0] == -1, added[(t, oi)][0] == -1, ret[(t, oi)][0] == -1)
    for g in range(total):
        s.add(sched[g] >= 0, sched[g] < T)
        for t in range(T):
            n_t = len(prog[t])
            chosen = sched[g] == t
            # a chosen thread must have work left
            s.add(z3.Implies(chosen, pc[g][t] < n_t))
            # frame for the threads not chosen
            s.add(z3.Implies(z3.Not(chosen), pc[g + 1][t] == pc[g][t]))
            for oi in range(len(programs[t])):
                pass
            for i, (act, line, oi, op, gi) in enumerate(prog[t]):
                at = z3.And(chosen, pc[g][t] == i)
                q = extra.get((t, oi), gi) if flavour == 'disjoint' else 0
                eff = [pc[g + 1][t] == i + 1]
                lk, cn = lock[g + 1] == lock[g], [ctr[g + 1][x] == ctr[g][x] for x in range(len(ctr[0]))]
                lc = loc[(t, oi)][g + 1] == loc[(t, oi)][g]
                ad = added[(t, oi)][g + 1] == added[(t, oi)][g]
                rt = ret[(t, oi)][g + 1] == ret[(t, oi)][g]
                a = act[0]
                if a == 'acq':
                    s.add(z3.Implies(at, lock[g] == 0))          # blocks: cannot be scheduled while held
                    lk = lock[g + 1] == t + 1
                elif a == 'rel':
                    lk = lock[g + 1] == 0
                elif a == 'read':
                    lc = loc[(t, oi)][g + 1] == ctr[g][q]
                elif a == 'read_const':
                    lc = loc[(t, oi)][g + 1] == 1
                elif a == 'inc':
                    cn = [ctr[g + 1][x] == (ctr[g][x] + (K if act[1] == 'k' else 1) if x == q else ctr[g][x]) for x in range(len(ctr[0]))]
                elif a == 'set_counter':
                    cn = [ctr[g + 1][x] == (K + 1 if x == q else ctr[g][x]) for x in range(len(ctr[0]))]
                elif a == 'add_local':
                    ad = added[(t, oi)][g + 1] == loc[(t, oi)][g]
                elif a == 'add_counter':
                    ad = added[(t, oi)][g + 1] == ctr[g][q]
                elif a == 'ret_counter':
                    rt = ret[(t, oi)][g + 1] == ctr[g][q] - 1
                elif a == 'ret_local':
                    rt = ret[(t, oi)][g + 1] == loc[(t, oi)][g]
                elif a in ('del', 'ret_none'):
                    pass
                else:
                    raise CannotEncode("action %r" % (act,))
                s.add(z3.Implies(at, z3.And(*(eff + [lk, lc, ad, rt] + cn))))
            # locals of ops of the chosen thread that are not the current op keep their values: encoded by equality above per op;
            # for the other ops of this thread:
            for oi in range(len(programs[t])):
                for i, (act, line, oj, op, gi) in enumerate(prog[t]):
                    if oj != oi:
                        at = z3.And(chosen, pc[g][t] == i)
                        s.add(z3.Implies(at, z3.And(loc[(t, oi)][g + 1] == loc[(t, oi)][g], added[(t, oi)][g + 1] == added[(t, oi)][g],
                                                    ret[(t, oi)][g + 1] == ret[(t, oi)][g])))
            for oi in range(len(programs[t])):
                s.add(z3.Implies(z3.Not(chosen), z3.And(loc[(t, oi)][g + 1] == loc[(t, oi)][g], added[(t, oi)][g + 1] == added[(t, oi)][g],
                                                        ret[(t, oi)][g + 1] == ret[(t, oi)][g])))
        # global frame for lock/counters when the chosen thread's step does not mention them is part of each step's effect
    # all threads finished
    for t in range(T):
        s.add(pc[total][t] == len(prog[t]))
    # vacuity: some complete schedule exists
    r0 = s.check()
    if str(r0) != 'sat':
        return ('error', None, {"why": "no complete schedule exists (deadlock or encoding error): %s" % r0, "steps": total})
    # violation: ids collide, a returned id is not the id of the added node, or the lock is held at the end
    bad = [lock[total] != 0]
    insts = [(t, oi) for t in range(T) for oi in range(len(programs[t]))]
    adders = [(t, oi) for (t, oi) in insts if any(a[0][0].startswith('add') for a in ops[programs[t][oi][0]])]
    for x in range(len(adders)):
        for y in range(x + 1, len(adders)):
            (t1, o1), (t2, o2) = adders[x], adders[y]
            same_space = flavour == 'shared' or ((t1, o1) not in extra and (t2, o2) not in extra and programs[t1][o1][1] == programs[t2][o2][1])
            if same_space:
                k1 = K if programs[t1][o1][0].startswith('add_graph') else 1
                k2 = K if programs[t2][o2][0].startswith('add_graph') else 1
                a1, a2 = added[(t1, o1)][total], added[(t2, o2)][total]
                # id ranges [a1, a1+k1) and [a2, a2+k2) overlap
                bad.append(z3.And(a1 < a2 + k2, a2 < a1 + k1))
    for (t, oi) in adders:
        if any(a[0][0].startswith('ret_') and a[0][0] != 'ret_none' for a in ops[programs[t][oi][0]]):
            bad.append(ret[(t, oi)][total] != added[(t, oi)][total])
    s.push()
    s.add(z3.Or(*bad))
    t0 = time.time()
    r = s.check()
    info = {"steps": total, "solver_s": round(time.time() - t0, 2), "ops": {k: [(a[0], ln) for (a, ln) in v] for k, v in ops.items()}}
    if str(r) == 'unsat':
        return ('confirmed', None, info)
    if str(r) == 'sat':
        m = s.model()
        schedule = []
        pcs = [0] * T
        for g in range(total):
            t = m[sched[g]].as_long()
            act, line, oi, op, gi = prog[t][pcs[t]]
            schedule.append((t, op, line, act[0]))
            pcs[t] += 1
        info["model"] = {"added": {str(k): m.eval(v[total]).as_long() for k, v in added.items()},
                         "returned": {str(k): m.eval(v[total]).as_long() for k, v in ret.items()}}
        return ('refuted', schedule, info)
    return ('unknown', None, info)


# --------------------------------------------------------------------------- replay with real threads
def replay(flavour, programs, schedule, K=2, timeout=20):
    """force the interleaving on the real store: every thread stops before each state-relevant source line of the store
    methods and proceeds only when the schedule says it is its turn.  Returns a dict with the observed ids."""
    import networkx as nx
    from fim.graph.networkx_property_graph import NetworkXGraphStorage, NetworkXGraphImporter
    from fim.graph.networkx_property_graph_disjoint import NetworkXGraphStorageDisjoint, NetworkXGraphImporterDisjoint
    NetworkXGraphStorage.storage_instance = None
    NetworkXGraphStorageDisjoint.storage_instance = None
    imp = NetworkXGraphImporterDisjoint() if flavour == 'disjoint' else NetworkXGraphImporter()
    st = imp.storage.storage_instance
    cls = type(st)
    tracked = {}
    for th in programs:
        for (op, gi) in th:
            code = getattr(cls, op).__code__
            tracked.setdefault(code, set()).update(ln for (_, ln) in method_steps(cls, op, flavour))
    cond = threading.Condition()
    pos = [0]
    order = [t for (t, op, line, a) in schedule]
    results = {}
    errors = []
    deadline = time.time() + timeout

    def tracer_for(t):
        def local(frame, event, arg):
            if event == 'line' and frame.f_code in tracked and frame.f_lineno in tracked[frame.f_code]:
                with cond:
                    while pos[0] < len(order) and order[pos[0]] != t:
                        if not cond.wait(timeout=0.5) and time.time() > deadline:
                            errors.append("schedule could not be forced (thread %d waiting at line %d)" % (t, frame.f_lineno))
                            return None
                    pos[0] += 1
                    cond.notify_all()
            return local

        def glob(frame, event, arg):
            if event == 'call' and frame.f_code in tracked:
                return local
            return None
        return glob

    def run(t):
        sys.settrace(tracer_for(t))
        try:
            for oi, (op, gi) in enumerate(programs[t]):
                gid = ['g1', 'g2'][gi]
                if op == 'add_blank_node_to_graph':
                    r = st.add_blank_node_to_graph(gid, Class='C', NodeID='t%d-%d' % (t, oi))
                    results[(t, oi)] = ('blank', gid, r, 't%d-%d' % (t, oi))
                elif op in ('add_graph', 'add_graph_direct'):
                    g = nx.Graph()
                    for k in range(K):
                        g.add_node('k%d' % k, NodeID='t%d-%d-%d' % (t, oi, k), Class='C', GraphID=gid + '-%d-%d' % (t, oi))
                    getattr(st, op)(gid + '-%d-%d' % (t, oi), g)
                    results[(t, oi)] = ('graph', gid + '-%d-%d' % (t, oi), None, None)
                else:
                    getattr(st, op)(gid)
        except Exception as e:
            errors.append("thread %d: %r" % (t, e))
        finally:
            sys.settrace(None)
            with cond:
                cond.notify_all()

    ths = [threading.Thread(target=run, args=(t,), daemon=True) for t in range(len(programs))]
    for th in ths:
        th.start()
    for th in ths:
        th.join(timeout)
    # observe
    out = {"errors": errors, "results": {str(k): v for k, v in results.items()}}
    ids = [v[2] for v in results.values() if v[0] == 'blank']
    out["duplicate_returned_ids"] = len(ids) != len(set(ids))
    lost = []
    for (t, oi), v in results.items():
        if v[0] == 'blank':
            g = st.get_graph(v[1])
            present = [n for n in g.nodes if g.nodes[n].get('NodeID') == v[3]]
            if len(present) != 1 or present[0] != v[2]:
                lost.append(v[3])
        else:
            g = st.get_graph(v[1])
            want = {'t%d-%d-%d' % (t, oi, k) for k in range(K)}
            have = {g.nodes[n].get('NodeID') for n in g.nodes if g.nodes[n].get('GraphID') == v[1]}
            if want - have:
                lost.append(sorted(want - have))
    out["lost_or_misplaced"] = lost
    out["lock_held"] = st.lock.locked()
    out["reproduced"] = bool(out["duplicate_returned_ids"] or lost or out["lock_held"])
    return out
