"""Per-property orchestrator: `python -m vf.run <Cxx> [--tier quick|thorough]` and
`python -m vf.run replay <file>`.  See DESIGN.md 1.1 for the verdict policy.

exit 0  every harness confirmed / inconclusive / listed known finding
exit 1  a counterexample that replays on the real code and is not listed   (VIOLATION line)
exit 2  harness error: counterexample does not replay, vacuous harness, engine crash
"""
import argparse
import concurrent.futures as cf
import fnmatch
import hashlib
import importlib
import inspect
import json
import os
import subprocess
import sys
import time

ROOT = "/verif"
PY = os.path.join(ROOT, ".venv/bin/python")

from vf.props import PROPS  # noqa: E402


REPLAYS = {"n": 0}


def _run_worker(args, wall):
    if "--replay" in args:
        REPLAYS["n"] += 1
    env = dict(os.environ)
    env["PYTHONPATH"] = ROOT + (":" + env["PYTHONPATH"] if env.get("PYTHONPATH") else "")
    env["PYTHONDONTWRITEBYTECODE"] = "1"
    env.setdefault("PYTHONHASHSEED", "0")
    t0 = time.time()
    try:
        p = subprocess.run([PY, "-u", "-m", "vf.worker"] + args, cwd=ROOT, env=env, capture_output=True,
                           text=True, timeout=wall)
        out = p.stdout
        for line in reversed(out.splitlines()):
            if line.startswith("RESULT "):
                r = json.loads(line[7:])
                r["proc_wall_s"] = round(time.time() - t0, 2)
                return r
        return {"verdict": "error", "message": "worker produced no RESULT (rc=%s)" % p.returncode,
                "stderr": (p.stderr or "")[-2000:], "stdout": out[-1000:]}
    except subprocess.TimeoutExpired:
        return {"verdict": "unknown", "message": "wall-clock limit %ss hit" % wall, "state": "WALL_TIMEOUT",
                "proc_wall_s": round(time.time() - t0, 2)}


def _sha(obj):
    try:
        return hashlib.sha1(inspect.getsource(obj).encode()).hexdigest()[:12]
    except Exception:
        return None


def _resolve(qual):
    parts = qual.split(".")
    for i in range(len(parts), 0, -1):
        try:
            obj = importlib.import_module(".".join(parts[:i]))
        except Exception:
            continue
        try:
            for p in parts[i:]:
                if isinstance(obj, type) and p.startswith("__") and not p.endswith("__"):
                    p = "_%s%s" % (obj.__name__, p)
                obj = inspect.getattr_static(obj, p) if False else getattr(obj, p)
            return obj
        except AttributeError:
            return None
    return None


def load_known(pid):
    path = os.path.join(ROOT, "known_findings.json")
    if not os.path.exists(path):
        return []
    data = json.load(open(path))
    return [f for f in data.get("findings", []) if f.get("property") == pid and f.get("status") == "open"]


def check_property(pid, tier, seed, extra=None):
    REPLAYS["n"] = 0
    t_start = time.time()
    prop = PROPS[pid]
    from vf.registry import REG
    by_mod = {}
    for mod in prop["modules"]:
        before = set(REG)
        importlib.import_module(mod)
        for k in REG:
            if k not in before:
                by_mod[k] = mod
    hs = [h for h in REG.values() if tier in h.tiers and h.key in by_mod]
    if not hs and extra is None:
        print("CANNOT-ENCODE property=%s no harness registered for tier %s" % (pid, tier))
        return 2
    known = load_known(pid)
    extra_results = []
    extra_thread = None
    if extra is not None:
        import threading

        def _run_extra():
            try:
                extra_results.extend(extra())
            except Exception as e:  # an engine crash of the z3 stage is a harness error, never a pass
                import traceback as _tb
                extra_results.append({"key": "stage", "verdict": "error", "message": "stage crashed: %r %s" % (e, _tb.format_exc()[-800:]),
                                      "bounds": "", "encodes": []})
        extra_thread = threading.Thread(target=_run_extra)
        extra_thread.start()
    jobs = int(os.environ.get("VERIF_JOBS", "14"))
    scale = float(os.environ.get("VERIF_TIMEOUT_SCALE", "1.0"))
    results = {}
    known_lines = []
    stale = []

    # 1. known findings: does each listed witness still reproduce?
    active_excl = {}
    whole_known = set()
    for f in known:
        hk = f["harness"]
        targets = [h for h in hs if fnmatch.fnmatch(h.key, hk)]
        if not targets:
            continue
        h = targets[0]
        rr = _run_worker([by_mod[h.key], h.key, "--replay", f["witness_call"]], 300)
        f["_replay"] = rr
        if rr.get("reproduced"):
            known_lines.append("KNOWN-FINDING: property=%s %s [%s]" % (pid, f["what"], f["key"]))
            for t in targets:
                if f.get("exclude_pre") is None:
                    # the finding IS the harness (every input of it fails): the harness is reported through its witness only
                    whole_known.add(t.key)
                else:
                    active_excl.setdefault(t.key, []).append(f["exclude_pre"])
        else:
            stale.append(f["key"])

    # 2. all harnesses (with the exclusions of reproduced known findings), in parallel
    def job(h):
        to = max(5, int(h.timeout * scale))
        args = [by_mod[h.key], h.key, str(to)]
        if h.per_path_timeout:
            args += ["--ppt", str(h.per_path_timeout)]
        for e in active_excl.get(h.key, []):
            args += ["--extra-pre", e]
        r = _run_worker(args, wall=max(to * 3, to + 180))
        r["key"] = h.key
        return h.key, r

    hs = [h for h in hs if h.key not in whole_known]
    order = sorted(hs, key=lambda h: -h.timeout)
    with cf.ThreadPoolExecutor(max_workers=jobs) as ex:
        for k, r in ex.map(job, order):
            results[k] = r

    # 3. optional explicit reachability twins (thorough tier)
    twins = {}
    if tier == "thorough" and os.environ.get("VERIF_TWINS", "1") == "1":
        def tjob(h):
            args = [by_mod[h.key], h.key, str(max(10, int(h.timeout * scale))), "--twin"]
            if h.per_path_timeout:
                args += ["--ppt", str(h.per_path_timeout)]
            for e in active_excl.get(h.key, []):
                args += ["--extra-pre", e]
            return h.key, _run_worker(args, wall=h.timeout * 2 + 120)
        with cf.ThreadPoolExecutor(max_workers=jobs) as ex:
            for k, r in ex.map(tjob, [h for h in order if results[h.key].get("verdict") == "confirmed"]):
                twins[k] = r

    # 4. triage
    rc = 0
    violations, mismatches, inconclusive, confirmed = [], [], [], []
    os.makedirs(os.path.join(ROOT, "replays", pid), exist_ok=True)
    for h in hs:
        r = results[h.key]
        v = r.get("verdict")
        if v == "confirmed":
            if r.get("reach", 0) < 1:
                mismatches.append((h.key, "vacuous: confirmed but no path reached the postcondition"))
            elif h.key in twins and twins[h.key].get("verdict") != "refuted":
                if twins[h.key].get("verdict") == "unknown":
                    confirmed.append(h.key)   # twin inconclusive: the in-run reach counter already witnessed reachability
                else:
                    mismatches.append((h.key, "reachability twin not refuted: %s" % twins[h.key].get("message")))
            else:
                confirmed.append(h.key)
        elif v == "unknown":
            inconclusive.append(h.key)
            print("INCONCLUSIVE harness=%s %s (paths=%s cpu=%ss)" % (h.key, r.get("message"), r.get("paths"), r.get("cpu_s")))
        elif v == "pre_unsat":
            mismatches.append((h.key, "precondition unsatisfiable / no path completed: %s" % r.get("message")))
        elif v == "refuted":
            call = r.get("call")
            if not call:
                mismatches.append((h.key, "counterexample without call expression: %s" % r.get("message")))
                continue
            rr = _run_worker([by_mod[h.key], h.key, "--replay", call], 600)
            r["replay"] = rr
            path = os.path.join(ROOT, "replays", pid, h.key.replace("/", "_") + ".json")
            json.dump({"property": pid, "module": by_mod[h.key], "harness": h.key, "call": call,
                       "symbolic_verdict": r.get("message"), "replay": rr}, open(path, "w"), indent=1)
            if rr.get("reproduced"):
                violations.append((h.key, path, r.get("message")))
            else:
                mismatches.append((h.key, "counterexample does not replay on the real code: %s -> %s" % (call, rr)))
        else:
            mismatches.append((h.key, "worker error: %s %s" % (r.get("message"), (r.get("traceback") or r.get("stderr") or "")[-600:])))

    # 4b. results of the z3 stage (E2), same triage
    if extra_thread is not None:
        extra_thread.join()
    os.makedirs(os.path.join(ROOT, "replays", pid), exist_ok=True)
    stage_samples = []
    for r in extra_results:
        v = r.get("verdict")
        if v == "info":
            stage_samples.append(r)
            continue
        for line in r.get("known_lines", []):
            if line not in known_lines:
                known_lines.append(line)
        stage_samples.append({"harness": r["key"], "bounds": r.get("bounds"), "verdict": v, "queries": r.get("solver_checks"),
                              "solver_s": r.get("solver_s"), "witness": r.get("witness"), "message": r.get("message"),
                              "translator_validation": r.get("translator_validation")})
        if v == "confirmed":
            confirmed.append(r["key"])
        elif v == "unknown":
            inconclusive.append(r["key"])
            print("INCONCLUSIVE harness=%s %s" % (r["key"], r.get("message")))
        elif v == "refuted":
            path = os.path.join(ROOT, "replays", pid, r["key"].replace("/", "_") + ".json")
            json.dump({"property": pid, "stage": "z3", "harness": r["key"], "witness": r.get("witness"), "message": r.get("message"),
                       "replay": r.get("replay")}, open(path, "w"), indent=1)
            if (r.get("replay") or {}).get("reproduced"):
                violations.append((r["key"], path, r.get("message")))
            else:
                mismatches.append((r["key"], "z3 witness does not replay on the real code: %s" % r.get("message")))
        else:
            mismatches.append((r["key"], r.get("message")))
    for line in known_lines:
        print(line)
    for k in stale:
        print("NOTE listed finding %s no longer reproduces (nothing suppressed for it)" % k)
    for k, why in mismatches:
        print("ENGINE-MISMATCH property=%s harness=%s %s" % (pid, k, why))
        rc = 2
    for k, path, msg in violations:
        print("VIOLATION property=%s replay=%s" % (pid, path))
        print("  harness=%s %s" % (k, (msg or "")[:400]))
        rc = 1
    core = [h.key for h in hs if h.core]
    decided = [k for k in core if k in confirmed]

    # 5. evidence
    enc = {}
    for h in hs:
        for q in h.encodes:
            if q not in enc:
                enc[q] = _sha(_resolve(q))
    for r in extra_results:
        for q in r.get("encodes", []) or []:
            if q not in enc:
                enc[q] = _sha(_resolve(q))
    samples = []
    for h in hs:
        r = results[h.key]
        samples.append({"harness": h.key, "bounds": h.bounds, "verdict": r.get("verdict"), "paths": r.get("paths"),
                        "reached_post": r.get("reach"), "solver_checks": r.get("solver_checks"),
                        "solver_s": r.get("solver_s"), "cpu_s": r.get("cpu_s"), "budget_s": h.timeout,
                        "excluded_known": active_excl.get(h.key, []),
                        "counterexample": r.get("call"), "twin": twins.get(h.key, {}).get("verdict")})
    total_paths = sum(int(results[h.key].get("paths") or 0) for h in hs) + sum(int(r.get("paths") or 0) for r in extra_results)
    for r in extra_results:
        for q in r.get("encodes", []) or []:
            pass
    ev = {
        "property_id": pid, "tier": tier, "seed": seed, "level": prop["level"],
        "coverage": {
            "evaluations": max(1, total_paths),
            "distinct_nontrivial": len(confirmed),
            # the level's own keys, measured: end states of the explored symbolic paths; solver-decided branch decisions between them;
            # concrete traces (counterexamples, known-finding witnesses, z3-stage witnesses) re-executed against the real code in this run
            "states": max(1, total_paths),
            "transitions": max(1, sum(int(results[h.key].get("solver_checks") or 0) for h in hs) + sum(int(r.get("solver_checks") or 0) for r in extra_results)),
            "traces_validated_against_impl": REPLAYS["n"] + sum(int(r.get("replays") or 0) for r in extra_results),
            "rule": "one evaluation = one symbolic execution path of a harness through the real code, each branch decided by z3; "
                    "distinct_nontrivial = harnesses whose postcondition was confirmed over ALL paths within the stated bounds and "
                    "reached on at least one path satisfying the precondition (vacuity witness); states = explored symbolic paths (their end states), "
                    "transitions = solver checks deciding the branches between them, traces_validated_against_impl = concrete replays of "
                    "counterexamples / listed witnesses against the real code in this run",
            "samples": samples + stage_samples,
            "obligations": len(hs) + len([r for r in extra_results if r.get("verdict") != "info"]), "discharged": len(confirmed), "inconclusive": inconclusive,
            "core_obligations": len(core), "core_decided": len(decided),
            "known_findings_reproduced": [l for l in known_lines], "violations": [v[0] for v in violations],
            "engine_mismatches": [m[0] for m in mismatches],
            "functions_encoded": [{"name": q, "source_sha1": s} for q, s in sorted(enc.items())],
            "queries_discharged": sum(int(results[h.key].get("solver_checks") or 0) for h in hs) + sum(int(r.get("solver_checks") or 0) for r in extra_results),
            "solver_time_s": round(sum(float(results[h.key].get("solver_s") or 0) for h in hs) + sum(float(r.get("solver_s") or 0) for r in extra_results), 2),
            "engine": "crosshair-tool 0.0.110 + z3 %s" % _z3v(),
            "explanation": prop.get("explanation", ""),
            "exhaustive": False,
        },
        "assumptions": prop.get("assumptions", []) + STD_ASSUMPTIONS,
        "wall_s": round(time.time() - t_start, 2),
        "violations": len(violations),
    }
    extra = prop.get("post_evidence")
    if extra:
        extra(ev, results)
    # VERIF_EVIDENCE_DIR: developer pre-screening of a seeded change against a scratch copy must not overwrite the real evidence
    evdir = os.environ.get("VERIF_EVIDENCE_DIR") or os.path.join(ROOT, "evidence")
    os.makedirs(evdir, exist_ok=True)
    json.dump(ev, open(os.path.join(evdir, pid + ".json"), "w"), indent=1, default=str)
    print("%s property=%s tier=%s harnesses=%d confirmed=%d inconclusive=%d known=%d violations=%d mismatches=%d paths=%d wall=%.0fs"
          % ("OK" if rc == 0 else "FAIL", pid, tier, len(hs) + len([r for r in extra_results if r.get("verdict") != "info"]), len(confirmed), len(inconclusive), len(known_lines),
             len(violations), len(mismatches), total_paths, time.time() - t_start))
    return rc


STD_ASSUMPTIONS = [
    "trusted base: CPython 3.12, CrossHair's models of int/str/list/dict/set builtins, z3",
    "json shim: json.loads(json.dumps(x)) == x and dumps deterministic for JSON trees (self-tested concretely each run); NaN/inf excluded",
    "uuid.uuid4 replaced by a deterministic counter; networkx dict factories replaced by a trivial dict subclass",
    "a 'Not confirmed' harness is reported as inconclusive and not counted as discharged",
]


def _z3v():
    try:
        import z3
        return z3.get_version_string()
    except Exception:
        return "?"


def do_replay(path):
    d = json.load(open(path))
    rr = _run_worker([d["module"], d["harness"], "--replay", d["call"]], 600)
    print(json.dumps(rr, indent=1))
    if rr.get("reproduced"):
        print("VIOLATION property=%s replay=%s" % (d["property"], path))
        return 1
    print("not reproduced")
    return 0


def main():
    if len(sys.argv) >= 3 and sys.argv[1] == "replay":
        sys.exit(do_replay(sys.argv[2]))
    ap = argparse.ArgumentParser()
    ap.add_argument("pid")
    ap.add_argument("--tier", default=os.environ.get("VERIF_TIER", "quick"), choices=["quick", "thorough"])
    a = ap.parse_args()
    seed = int(os.environ.get("VERIF_SEED", "0") or 0)
    from vf import prelude
    prelude.selftest()
    if a.pid not in PROPS:
        print("unknown or not-applicable property", a.pid)
        sys.exit(2)
    custom = PROPS[a.pid].get("runner")
    if custom:
        mod, fn = custom.rsplit(":", 1)
        sys.exit(getattr(importlib.import_module(mod), fn)(a.pid, a.tier, seed))
    sys.exit(check_property(a.pid, a.tier, seed))


if __name__ == "__main__":
    main()
