"""Property table: which harness modules decide which property (ids are those of properties.jsonl)."""
XH_NOTE = ("Bounded claim: holds for every value of the symbolic inputs inside the per-harness bounds recorded in the evidence; "
           "nothing is claimed outside them. Trusted: CPython 3.12, CrossHair's builtin models, z3; stubs listed in evidence.assumptions.")

PROPS = {
    "C15": {
        "modules": ["harness.c15"], "level": "model_checking", "design_ref": "DESIGN.md 2/C15",
        "level_text": "Every algebraic law is a CrossHair harness over the real Capacities/FreeCapacity methods with all fields "
                      "of both operands as unbounded symbolic ints; 'Confirmed over all paths' = z3 found no value violating the law.",
        "level_note": XH_NOTE + " str()/to_json of negative results formats ints in C and is bug-hunting only.",
        "explanation": "Capacities arithmetic/comparison laws, every field an unbounded symbolic int",
        "assumptions": [],
    },
}

PROPS["C03"] = {
    "modules": ["harness.c03"], "level": "model_checking", "design_ref": "DESIGN.md 2/C03",
    "level_text": "Each codec class has a CrossHair harness whose inputs are all of its fields (unbounded ints, floats, short strings, "
                  "presence bits); round trip, canonical re-encoding, forward compatibility, update() purity and finalize() are postconditions "
                  "decided by z3 over all field values within the string/list length bounds.",
    "level_note": XH_NOTE + " Validated label formats, tags and ISO dates come from concrete pools selected by symbolic index.",
    "explanation": "attribute value codecs round trip", "assumptions": [],
}

PROPS["C17"] = {
    "modules": ["harness.c17"], "level": "model_checking", "design_ref": "DESIGN.md 2/C17",
    "level_text": "Old and new slivers are built from symbolic presence bits and symbolic property values over a fixed name universe; "
                  "the expected edit script is read off those inputs and compared with the real diff() result for every assignment.",
    "level_note": XH_NOTE + " Name universe: 2 components, 2 node services, 2 interfaces, 2 sub-interfaces.",
    "explanation": "sliver diff vs edit script", "assumptions": [],
}

PROPS["C11"] = {
    "modules": ["harness.c11"], "level": "model_checking", "design_ref": "DESIGN.md 2/C11",
    "level_text": "Slices are lists of node/service slivers built from symbolic scalars (type/site/port indices, unbounded capacities); "
                  "the collectors' output is compared with a direct tally and across every collection order, for all assignments.",
    "level_note": XH_NOTE + " Sliver level only: extracting slivers from a topology and the serialized-model path (GraphML) are outside.",
    "explanation": "authz attribute completeness and order independence", "assumptions": [],
}

PROPS["C10"] = {
    "modules": ["harness.c10"], "level": "model_checking", "design_ref": "DESIGN.md 2/C10",
    "level_text": "For each of the 15 service types and 6 node types the real validate_constraints runs on a real service/node element with "
                  "symbolic interface count, site placement, declared site, property presence bits and interface kinds; accept/reject is compared "
                  "with an independent predicate over a pinned copy of the constraint tables, and the live tables are compared with the pinned copy.",
    "level_note": XH_NOTE + " Interfaces/owners handed to the service validator are stand-ins (ownership lookup stubbed); the wiring of "
                  "Topology.validate to them is covered for a real 2-node slice only. Counts/sites and properties/kinds are varied in separate harnesses.",
    "explanation": "validation vs pinned constraint tables", "assumptions": ["topology.get_owner_node replaced by a harness-controlled answer in the per-type harnesses"],
}

PROPS["C12"] = {
    "modules": ["harness.c12"], "level": "model_checking", "design_ref": "DESIGN.md 2/C12",
    "level_text": "Delegation sets and pool families are built from symbolic ids (pooled, so aliasing is the solver's), formats, pool names and "
                  "unbounded/short details; encode/decode, rejection rules and pools -> per-node delegations -> pools are postconditions over all assignments.",
    "level_note": XH_NOTE + " <=3 delegations, <=2 pools, 3 nodes; reserved pool name '_' and empty details are outside the claim.",
    "explanation": "delegations/pools encode and regroup", "assumptions": [],
}

PROPS["C18"] = {
    "modules": ["harness.c18"], "level": "model_checking", "design_ref": "DESIGN.md 2/C18",
    "level_text": "map_capacities_to_instance runs on the live 869-entry catalogue with (core, ram, disk) as unbounded symbolic ints; the request space "
                  "is cut into slabs along the catalogue's thresholds and z3 decides every filter comparison inside a slab, so the union of slabs is every "
                  "request; result compared with a brute-force sufficiency / Pareto-minimality / largest oracle. Components: every catalogue entry x argument shape.",
    "level_note": XH_NOTE,
    "explanation": "instance sizing + component catalogue", "assumptions": [],
}

PROPS["C16"] = {
    "modules": ["harness.c16"], "runner": "vf.c16:run", "level": "model_checking", "design_ref": "DESIGN.md 2/C16",
    "engine": "z3 (rx2z3) + crosshair",
    "technique": "regex/range validators translated from the live code (re._parser + AST of the applying call and lambdas) to z3 regular-expression/LIA "
                 "terms and compared with pinned documented formats by z3; entry-point routing by CrossHair symbolic execution",
    "level_text": "Layer 1: for every validator the language the code accepts is rebuilt from the live pattern objects, the AST of the call that applies them "
                  "and the AST of the range lambdas, and z3 decides whether any string (length <= 64/300, all of Unicode via a minterm alphabet) is accepted by the "
                  "code but outside the pinned documented format, or the reverse; witnesses are replayed through the real constructors. Layer 2: CrossHair "
                  "harnesses show every entry point accepts exactly what the scalar constructor accepts.",
    "level_note": XH_NOTE + " The translator is validated on every run against the real re/constructors on generated strings; unsupported constructs are "
                  "CANNOT-ENCODE (exit 2), never skipped.",
    "explanation": "validator languages vs documented formats", "assumptions": ["documented formats pinned in spec/c16_formats.json"],
}

PROPS["C06"] = {
    "modules": ["harness.c06"], "level": "model_checking", "design_ref": "DESIGN.md 2/C06",
    "level_text": "Each query runs on the real in-memory store for enumerated 4-node shapes with the class of every node, the relation of every edge and the "
                  "requested relations/classes as symbolic strings and the start/end nodes as symbolic indices; results are compared with an oracle computed "
                  "from the edge list (set comprehension, BFS, brute-force simple paths). Any exception is a counterexample.",
    "level_note": XH_NOTE + " Shapes are enumerated (quick: 4 shapes; thorough: 8), graphs of 4 nodes, a decoy graph with the same node ids shares the store.",
    "explanation": "neighbour/path queries vs oracle", "assumptions": [],
}

STORE_NOTE = (" Ids, classes, relations and values are opaque tokens under symbolic execution (only ==/!=/truthiness observed) and real strings in the "
              "concrete replay; any other use of a label aborts the harness as an engine mismatch.")
PROPS["C05"] = {
    "modules": ["harness.c05"], "level": "model_checking", "design_ref": "DESIGN.md 2/C05",
    "level_text": "Lock-step differential harnesses: the same operation (sequence) with symbolic arguments runs on the shared-store backend, the per-graph "
                  "backend and an executable reference model of the documented interface; results, exception classes and full graph content are compared "
                  "three ways after every step, plus the absolute identity/uniqueness/merge clauses.",
    "level_note": XH_NOTE + STORE_NOTE + " Sequences of depth 1 (all 19 operations) and depth 2 (quick: add/delete node first; thorough: 8 first operations) from one seed state.",
    "explanation": "backend differential vs reference model", "assumptions": ["labels are opaque tokens (equality only)"],
}

PROPS["C04"] = {
    "modules": ["harness.c04"], "level": "model_checking", "design_ref": "DESIGN.md 2/C04",
    "level_text": "One inductive step from a bounded symbolic store state on both store flavours: for each operation kind with symbolic arguments the snapshot "
                  "(content and internal ids) of every other graph is compared before/after, whether the operation returns or raises; clone content and "
                  "clone/source independence are postconditions.",
    "level_note": XH_NOTE + STORE_NOTE + " Store of 2-3 graphs with 1-2 nodes each; histories are covered one step at a time from that state family, not as sequences.",
    "explanation": "store isolation frame conditions", "assumptions": ["labels are opaque tokens (equality only)"],
}

PROPS["C20"] = {
    "modules": ["harness.c20"], "runner": "vf.c20:run", "engine": "crosshair + z3 (storebmc)",
    "technique": "lock balance: bounded symbolic execution of the real store methods with a counting lock (CrossHair+z3); interleavings: store methods "
                 "translated statement by statement from their AST into a transition system and bounded-model-checked with z3 over all schedules, "
                 "sat schedules replayed with real threads under a line scheduler", "level": "model_checking", "design_ref": "DESIGN.md 2/C20",
    "level_text": "(a) The real store methods of both flavours run with the lock replaced by a counting lock; every sequence of 2 (thorough: 3) store "
                  "operations with symbolic graph ids / graph variants / NodeID truthiness must leave the lock free and released exactly once per call, on "
                  "return and on raise. (b) storebmc: add_graph / add_graph_direct / del_graph / del_all_graphs / add_blank_node_to_graph of both stores are translated from "
                  "their AST into guarded steps over (lock, id counters, allocated ids); z3 searches all schedules of 2 threads x 1-2 operations (thorough: 3 x 2) "
                  "for a duplicate or misplaced internal id or a held lock.",
    "level_note": XH_NOTE + " Only exceptions the real code raises for inputs of the documented types are considered (no fault injection). "
                  "(b) assumes one source statement is one atomic step and that imports go to graph ids not yet present; statements that touch store state "
                  "but match no translation pattern are CANNOT-ENCODE (exit 2).",
    "explanation": "lock balance on every path + bounded model checking of id allocation under interleavings", "assumptions": ["single-thread lock model: double release raises, re-acquire while held is reported as would-block"],
}

PROPS["C19"] = {
    "modules": ["harness.c19"], "level": "model_checking", "design_ref": "DESIGN.md 2/C19",
    "level_text": "Every public operation of the Neo4j backend classes that talks to the driver (discovered by introspection) runs on a stand-in driver; "
                  "value arguments are symbolic strings, and a Cypher lexer running on the symbolic statement text decides that the statement skeleton is the "
                  "same for every value, every literal decodes to the value that produced it and other values travel as parameters; the value-independent text is "
                  "checked for balance, template residue, parameter use and variable binding.",
    "level_note": XH_NOTE + " Value strings of length 1 (quick) and 2 (thorough); what the server does with a statement is outside (no server exists here).",
    "explanation": "Cypher statement data independence + well-formedness", "assumptions": ["neo4j driver replaced by a recording stand-in"],
}

TOPO_NOTE = (" Bounded symbolic execution from enumerated skeleton slices (built through the real API, <= 37 graph nodes): the solver covers all argument "
             "values and aliasing patterns of ONE step per (skeleton, operation); histories are not enumerated beyond the skeletons. The per-type interface-count "
             "rules of the published rule file are validation-time constraints (C10) and are not demanded of intermediate states.")
PROPS["C07"] = {
    "modules": ["harness.c07"], "level": "model_checking", "design_ref": "DESIGN.md 2/C07-C09",
    "level_text": "For every (skeleton, building operation) the step runs with symbolic arguments on the real topology classes; afterwards the structural published "
                  "rules transliterated to Python, containment (one owner per component/interface/sub-interface, one peer per service port), name uniqueness "
                  "per scope and the exactness/read-only-ness of the views are checked on the resulting model, whether the step returned or raised.",
    "level_note": XH_NOTE + TOPO_NOTE, "explanation": "topology invariants after one symbolic step", "assumptions": [],
}
PROPS["C08"] = {
    "modules": ["harness.c08"], "level": "model_checking", "design_ref": "DESIGN.md 2/C07-C09",
    "level_text": "For every (skeleton, removal/disconnect operation) with symbolic arguments the post-snapshot must equal the pre-snapshot minus the ownership "
                  "closure predicted by an independent model (owned sub-tree, its 2-ended links, the service-side ports peering with it), and the handle used "
                  "must report the same interfaces as a fresh lookup.",
    "level_note": XH_NOTE + TOPO_NOTE, "explanation": "exact removal vs ownership-closure model", "assumptions": [],
}
PROPS["C09"] = {
    "modules": ["harness.c09"], "level": "model_checking", "design_ref": "DESIGN.md 2/C07-C09",
    "level_text": "For every (skeleton, operation) with symbolic arguments (duplicate names, unknown model as an unbounded symbolic string, already-connected or "
                  "disallowed interfaces at any position, invalid values): if the call raises, the canonical model snapshot equals the pre-snapshot.",
    "level_note": XH_NOTE + TOPO_NOTE, "explanation": "atomic failure of topology operations", "assumptions": [],
}

PROPS["C02"] = {
    "modules": ["harness.c02", "harness.c02g"], "level": "model_checking", "design_ref": "DESIGN.md 2/C02",
    "level_text": "One harness per (sliver class, settable property) - the setter list is discovered at run time - builds the value from symbolic scalars, "
                  "converts the sliver to graph properties / deep dictionary / JSON and back and compares the field through its own encoder; nesting shapes "
                  "with symbolic counts; model-element set/get/unset on a real topology graph.",
    "level_note": XH_NOTE + " Validated formats (addresses, tags, dates) come from small concrete pools; strings len<=2.",
    "explanation": "sliver conversion round trips", "assumptions": [],
}

PROPS["C13"] = {
    "modules": ["harness.c13"], "level": "model_checking", "design_ref": "DESIGN.md 2/C13",
    "level_text": "A 14-node raw substrate model is annotated from symbolic choices (which delegation id each of three delegable nodes carries for labels and "
                  "for capacities, single or pooled, stitch flag); generate_adms runs on the in-memory backend and every returned partition is checked against "
                  "the property's clauses (own entries only, no foreign entry, induced sub-model, interface closure, stitch nodes, source untouched, re-keying).",
    "level_note": XH_NOTE + " The symbolic choices are resolved by solver-decided forks and the partitioning code then runs with tracing off on the concrete "
                  "annotation: the claim is over all 3^6 x 4 annotations of each family, not over graph shapes (3 families of one skeleton).",
    "explanation": "ADM partitioning soundness", "assumptions": [],
}

PROPS["C14"] = {
    "modules": ["harness.c14"], "level": "model_checking", "design_ref": "DESIGN.md 2/C14",
    "level_text": "merge_adm / unmerge_adm / _update_node_delegations of the Neo4j CBM class run as the same function objects on a hybrid class over the in-memory "
                  "shared store; families of 2-3 delegation models are generated from symbolic stitching choices (which node of which model is the same node, "
                  "which side carries the delegation) and every merge order, unmerge of the last merge and snapshot/rollback are compared with the union oracle "
                  "and with each other on a canonical snapshot.",
    "level_note": XH_NOTE + " APOC mergeNodes is replaced by the NetworkX merge_nodes. Canonical form: adm_graph_ids compared as a set, an empty delegation "
                  "property equals an absent one. Symbolic choices are resolved by solver-decided forks, then the merge code runs with tracing off.",
    "explanation": "CBM merge/unmerge", "assumptions": ["Neo4jADMGraph bound to NetworkXADMGraph inside fim.graph.resources.neo4j_cbm"],
}

NOT_APPLICABLE = {
    "C01": "every value on the GraphML/JSON text path crosses expat/lxml/json C code and temp files, where a symbolic value is "
           "concretised; what remains would be concrete sampling, i.e. a different technique (store-level half is decided under C04/C20)",
}
PENDING = {}
