"""rx2z3 - translate Python regular expressions (as parsed by CPython's own re._parser) and the
integer range lambdas of the validators into z3 regular-expression terms over a minterm-compressed
alphabet, so that "accepted by the code" vs "in the documented domain" becomes a z3 query
(DESIGN 2/C16, engine E2).

Alphabet: the code point space 0..0x10FFFF is partitioned into classes that no atom of any
pattern involved can tell apart (atoms are classified with Python's own `re`); each class is
represented by one of its members, so a z3 witness IS a real string.
"""
import re
import sys
import unicodedata

import z3

try:
    import re._parser as sre_parse
    import re._constants as sre_c
except ImportError:  # pragma: no cover
    import sre_parse
    import sre_constants as sre_c

MAXCP = 0x110000


class CannotEncode(Exception):
    pass


# --------------------------------------------------------------------------- atoms
def _atom_key(node):
    op, av = node
    if op is sre_c.LITERAL:
        return ('lit', av)
    if op is sre_c.NOT_LITERAL:
        return ('lit', av)
    if op is sre_c.RANGE:
        return ('range', av[0], av[1])
    if op is sre_c.CATEGORY:
        return ('cat', str(av))
    if op is sre_c.ANY:
        return ('lit', 10)   # '.' == not newline (no DOTALL)
    raise CannotEncode("atom %r" % (node,))


def collect_atoms(sub, out):
    for op, av in sub:
        if op in (sre_c.LITERAL, sre_c.NOT_LITERAL, sre_c.ANY):
            out.add(_atom_key((op, av)))
        elif op is sre_c.IN:
            for item in av:
                if item[0] is sre_c.NEGATE:
                    continue
                out.add(_atom_key(item))
        elif op is sre_c.BRANCH:
            for b in av[1]:
                collect_atoms(b, out)
        elif op in (sre_c.MAX_REPEAT, sre_c.MIN_REPEAT):
            collect_atoms(av[2], out)
        elif op is sre_c.SUBPATTERN:
            collect_atoms(av[3], out)
        elif op is sre_c.AT:
            out.add(('lit', 10))
        else:
            raise CannotEncode("regex construct %s" % (op,))


_ALL = None


def _all_chars():
    global _ALL
    if _ALL is None:
        _ALL = ''.join(map(chr, range(MAXCP)))
    return _ALL


def _members(atom):
    """set of code points matched by an atom, decided by Python's own re / str predicates"""
    kind = atom[0]
    if kind == 'lit':
        return {atom[1]}
    if kind == 'range':
        return set(range(atom[1], atom[2] + 1))
    if kind == 'cat':
        name = atom[1]
        pat = {'CATEGORY_DIGIT': r'\d', 'CATEGORY_NOT_DIGIT': r'\D', 'CATEGORY_WORD': r'\w', 'CATEGORY_NOT_WORD': r'\W',
               'CATEGORY_SPACE': r'\s', 'CATEGORY_NOT_SPACE': r'\S'}.get(name)
        if pat is None:
            raise CannotEncode("category " + name)
        return set(map(ord, re.findall(pat, _all_chars())))
    if kind == 'space':      # what int()/str.strip() strip
        return {c for c in range(MAXCP) if chr(c).isspace()}
    if kind == 'decval':     # decimal digits with a given value (int() accepts all of Unicode Nd)
        k = atom[1]
        return {c for c in range(MAXCP) if chr(c).isdecimal() and unicodedata.decimal(chr(c)) == k}
    raise CannotEncode("atom kind " + kind)


class Alphabet:
    """minterm partition of the code point space induced by a set of atoms"""

    def __init__(self, atoms):
        self.atoms = sorted(atoms, key=repr)
        sig = {}
        self.member_sets = {}
        for i, a in enumerate(self.atoms):
            ms = _members(a)
            self.member_sets[a] = ms
            bit = 1 << i
            for c in ms:
                sig[c] = sig.get(c, 0) | bit
        classes = {}
        for c, s in sig.items():
            classes.setdefault(s, []).append(c)
        # the class of everything no atom mentions
        rest = None
        for c in (0x41, 0x7e, 0x100, 0x4e00, 0x1f600):
            pass
        mentioned = set(sig.keys())
        for c in range(0x21, MAXCP):
            if c not in mentioned and not (0xD800 <= c <= 0xDFFF):
                rest = c
                break
        self.classes = []          # list of (signature, representative code point, size)
        for s, cs in classes.items():
            cs.sort()
            rep = next((c for c in cs if 0x20 < c < 0x7f), cs[0])
            self.classes.append((s, rep, len(cs)))
        if rest is not None:
            self.classes.append((0, rest, MAXCP - len(mentioned)))
        self.classes.sort(key=lambda t: t[1])
        self.reps = [chr(r) for (_, r, _) in self.classes]
        self._atom_reps = {}
        for i, a in enumerate(self.atoms):
            bit = 1 << i
            self._atom_reps[a] = [chr(r) for (s, r, _) in self.classes if s & bit]

    def reps_of(self, atom):
        return self._atom_reps[atom]

    def not_reps_of(self, atoms):
        bits = 0
        for a in atoms:
            bits |= 1 << self.atoms.index(a)
        return [chr(r) for (s, r, _) in self.classes if not (s & bits)]

    def classify(self, ch):
        """representative of the class of a real character"""
        c = ord(ch)
        s = 0
        for i, a in enumerate(self.atoms):
            if c in self.member_sets[a]:
                s |= 1 << i
        for (sg, r, _) in self.classes:
            if sg == s:
                return chr(r)
        raise KeyError(ch)

    def project(self, text):
        return ''.join(self.classify(ch) for ch in text)


# --------------------------------------------------------------------------- regex -> z3
def _chars_re(chars):
    if not chars:
        return z3.Empty(z3.ReSort(z3.StringSort()))
    rs = [z3.Re(z3.StringVal(c)) for c in chars]
    return rs[0] if len(rs) == 1 else z3.Union(*rs)


def _eps():
    return z3.Re(z3.StringVal(""))


def _concat(parts):
    parts = [p for p in parts if p is not None]
    if not parts:
        return _eps()
    return parts[0] if len(parts) == 1 else z3.Concat(*parts)


def _repeat(r, lo, hi):
    if hi is sre_c.MAXREPEAT or hi >= 65535:
        if lo == 0:
            return z3.Star(r)
        if lo == 1:
            return z3.Plus(r)
        return z3.Concat(z3.Loop(r, lo, lo), z3.Star(r))
    return z3.Loop(r, lo, hi)


class RxTranslator:
    def __init__(self, alphabet: Alphabet):
        self.al = alphabet
        self.sigma = _chars_re(alphabet.reps)

    def sub(self, subpattern, top=False):
        """translate a SubPattern; returns (z3 regex, begin_anchored, end_kind) where end_kind in
        {None, 'dollar', 'Z'} describes a trailing anchor (only allowed at top level)"""
        items = list(subpattern)
        begin = False
        end = None
        if top and items and items[0][0] is sre_c.AT and items[0][1] in (sre_c.AT_BEGINNING, sre_c.AT_BEGINNING_STRING):
            begin = True
            items = items[1:]
        if top and items and items[-1][0] is sre_c.AT and items[-1][1] in (sre_c.AT_END, sre_c.AT_END_STRING):
            end = 'dollar' if items[-1][1] is sre_c.AT_END else 'Z'
            items = items[:-1]
        parts = []
        for op, av in items:
            if op is sre_c.LITERAL:
                parts.append(_chars_re(self.al.reps_of(('lit', av))))
            elif op is sre_c.NOT_LITERAL:
                parts.append(_chars_re(self.al.not_reps_of([('lit', av)])))
            elif op is sre_c.ANY:
                parts.append(_chars_re(self.al.not_reps_of([('lit', 10)])))
            elif op is sre_c.IN:
                neg = False
                atoms = []
                for item in av:
                    if item[0] is sre_c.NEGATE:
                        neg = True
                    else:
                        atoms.append(_atom_key(item))
                if neg:
                    parts.append(_chars_re(self.al.not_reps_of(atoms)))
                else:
                    chars = []
                    for a in atoms:
                        for c in self.al.reps_of(a):
                            if c not in chars:
                                chars.append(c)
                    parts.append(_chars_re(chars))
            elif op is sre_c.BRANCH:
                alts = [self.sub(b)[0] for b in av[1]]
                parts.append(alts[0] if len(alts) == 1 else z3.Union(*alts))
            elif op in (sre_c.MAX_REPEAT, sre_c.MIN_REPEAT):
                lo, hi, body = av
                parts.append(_repeat(self.sub(body)[0], lo, hi))
            elif op is sre_c.SUBPATTERN:
                parts.append(self.sub(av[3])[0])
            elif op is sre_c.AT:
                raise CannotEncode("anchor %s in the middle of a pattern" % (av,))
            else:
                raise CannotEncode("regex construct %s" % (op,))
        return _concat(parts), begin, end

    def language(self, pattern, method):
        """z3 regex for { s | re.<method>(pattern, s) is not None } (no flags)"""
        parsed = sre_parse.parse(pattern)
        if parsed.state.flags & ~re.UNICODE:
            raise CannotEncode("regex flags")
        body, begin, end = self.sub(parsed, top=True)
        nl = _chars_re(self.al.reps_of(('lit', 10)))
        any_star = z3.Star(self.sigma)
        if method == 'fullmatch':
            # the whole string must be consumed; '$' may sit before a final newline only if that newline
            # is consumed afterwards, which nothing does -> plain language
            return body
        if method == 'match':
            tail = {None: any_star, 'dollar': z3.Union(_eps(), nl), 'Z': _eps()}[end]
            return z3.Concat(body, tail)
        if method == 'search':
            head = _eps() if begin else any_star
            tail = {None: any_star, 'dollar': z3.Union(_eps(), nl), 'Z': _eps()}[end]
            return z3.Concat(head, body, tail)
        raise CannotEncode("match method " + method)


# --------------------------------------------------------------------------- int() languages
INT_ATOMS = [('space',), ('lit', ord('+')), ('lit', ord('-')), ('lit', ord('_'))] + [('decval', k) for k in range(10)]


class IntLang:
    """regular languages { s | int(s) succeeds and lo <= int(s) <= hi } for Python's int(str):
    optional surrounding whitespace, optional sign, decimal digits of any script, single underscores
    between digits, leading zeros allowed."""

    def __init__(self, alphabet: Alphabet):
        self.al = alphabet
        self.D = [_chars_re(alphabet.reps_of(('decval', k))) for k in range(10)]
        self.anyd = z3.Union(*self.D)
        self.us = z3.Option(_chars_re(alphabet.reps_of(('lit', ord('_')))))
        self.ws = z3.Star(_chars_re(alphabet.reps_of(('space',))))
        self.plus = _chars_re(alphabet.reps_of(('lit', ord('+'))))
        self.minus = _chars_re(alphabet.reps_of(('lit', ord('-'))))

    def _dclass(self, a, b):
        rs = self.D[a:b + 1]
        return rs[0] if len(rs) == 1 else z3.Union(*rs)

    def _cat(self, d, rest):
        return d if rest is None else z3.Concat(d, self.us, rest)

    def _anyn(self, n):
        r = None
        for _ in range(n):
            r = self._cat(self.anyd, r)
        return r

    def _fixed(self, a, b):
        """nested (trie-shaped) regex for same-length decimal strings a <= x <= b, a single optional
        underscore allowed between digits; None for the empty string"""
        if not a:
            return None
        n = len(a) - 1
        if a[0] == b[0]:
            return self._cat(self.D[int(a[0])], self._fixed(a[1:], b[1:]))
        alts = [self._cat(self.D[int(a[0])], self._fixed(a[1:], '9' * n))]
        if int(b[0]) - int(a[0]) >= 2:
            alts.append(self._cat(self._dclass(int(a[0]) + 1, int(b[0]) - 1), self._anyn(n)))
        alts.append(self._cat(self.D[int(b[0])], self._fixed('0' * n, b[1:])))
        return z3.Union(*alts)

    def magnitude(self, lo, hi):
        """digit strings (leading zeros / underscores allowed) whose value is in [lo, hi], 0 <= lo <= hi"""
        alts = []
        for length in range(len(str(lo)), len(str(hi)) + 1):
            a = max(lo, 10 ** (length - 1) if length > 1 else 0)
            b = min(hi, 10 ** length - 1)
            if a <= b:
                alts.append(self._fixed(str(a).zfill(length), str(b)))
        body = alts[0] if len(alts) == 1 else z3.Union(*alts)
        zeros = z3.Star(z3.Concat(self.D[0], self.us))
        return z3.Concat(zeros, body)

    def in_range(self, lo, hi):
        alts = []
        if hi >= 0:
            alts.append(z3.Concat(z3.Option(self.plus), self.magnitude(max(lo, 0), hi)))
            if lo <= 0:
                alts.append(z3.Concat(self.minus, self.magnitude(0, 0)))
        if lo < 0:
            alts.append(z3.Concat(self.minus, self.magnitude(max(1, -hi) if hi < 0 else 1, -lo)))
        core = alts[0] if len(alts) == 1 else z3.Union(*alts)
        return z3.Concat(self.ws, core, self.ws)

    def syntax(self):
        digits = z3.Concat(self.anyd, z3.Star(z3.Concat(self.us, self.anyd)))
        return z3.Concat(self.ws, z3.Option(z3.Union(self.plus, self.minus)), digits, self.ws)


def digit_value_term(al: Alphabet, ch):
    """z3 Int term: decimal value of a 1-char z3 string over the representative alphabet (0 if not a digit)"""
    reps = [al.reps_of(('decval', k)) for k in range(10)]
    ascii_ok = all(chr(48 + k) in reps[k] for k in range(10))
    others = [[r for r in reps[k] if r != chr(48 + k)] for k in range(10)]
    if ascii_ok and all(len(o) == 1 for o in others) and all(ord(others[k][0]) == ord(others[0][0]) + k for k in range(10)):
        code = z3.StrToCode(ch)
        return z3.If(code < 128, code - 48, code - ord(others[0][0]))
    t = z3.IntVal(0)
    for k in range(1, 10):
        for r in reps[k]:
            t = z3.If(ch == z3.StringVal(r), z3.IntVal(k), t)
    return t


def value_of_digits(al: Alphabet, s, maxlen):
    """z3 Int term for the value of a z3 string of <= maxlen decimal digits (no sign/underscore)"""
    n = z3.Length(s)
    total = z3.IntVal(0)
    for i in range(maxlen):
        d = digit_value_term(al, z3.SubString(s, i, 1))
        total = z3.If(i < n, total * 10 + d, total)
    return total
