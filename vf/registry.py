"""Harness registry.  A harness is a plain function with typed parameters (the symbolic
inputs), PEP-316 `pre:` lines (the bounds) and `post: R(_)`; it returns True iff the
property held for these inputs.  Anything it raises is a counterexample as well."""
from dataclasses import dataclass, field
from typing import Callable, Dict, List, Optional


@dataclass
class H:
    key: str                      # unique within the property
    fn: Callable
    timeout: int = 60             # CrossHair per-condition CPU budget (s)
    tiers: tuple = ("quick", "thorough")
    core: bool = True             # must be decided for the property to count as decided
    encodes: tuple = ()           # qualified names of the repo functions exercised
    bounds: str = ""              # human-readable bound
    finding: Optional[str] = None  # key prefix used for known-findings matching
    per_path_timeout: Optional[float] = None


REG: Dict[str, H] = {}


def add(key, fn, **kw):
    if key in REG:
        raise KeyError("duplicate harness " + key)
    REG[key] = H(key=key, fn=fn, **kw)
    return fn


def harness(key, **kw):
    def deco(fn):
        add(key, fn, **kw)
        return fn
    return deco
