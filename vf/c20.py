"""C20 (b): interleaving stage - bounded model checking of identifier allocation (vf.storebmc) plugged into the
C20 check next to the lock-balance harnesses."""
import itertools
import time

from vf import storebmc as B

ALLOC = ['add_blank_node_to_graph', 'add_graph', 'add_graph_direct']


def scenarios(tier):
    out = []
    for fl in ('shared', 'disjoint'):
        # 2 threads x 1 operation: every pair of allocating operations, same and different graph
        for a, b in itertools.combinations_with_replacement(ALLOC, 2):
            for gb in (0, 1):
                out.append((fl, [[(a, 0)], [(b, gb)]]))
        # 2 threads x 2 operations
        out.append((fl, [[('add_blank_node_to_graph', 0), ('add_graph', 0)], [('add_blank_node_to_graph', 0), ('add_graph_direct', 1)]]))
        out.append((fl, [[('add_graph', 0), ('add_blank_node_to_graph', 0)], [('del_graph', 1), ('add_blank_node_to_graph', 0)]]))
        if tier == 'thorough':
            out.append((fl, [[('add_blank_node_to_graph', 0), ('add_blank_node_to_graph', 1)], [('add_blank_node_to_graph', 0), ('add_graph', 1)],
                             [('add_graph_direct', 0), ('add_blank_node_to_graph', 1)]]))
            out.append((fl, [[('add_graph', 0), ('add_graph', 1)], [('add_graph_direct', 0), ('add_blank_node_to_graph', 0)],
                             [('del_all_graphs', 0), ('add_blank_node_to_graph', 0)]]))
    return out


def stage(tier):
    results = []
    enc = ["fim.graph.networkx_property_graph.NetworkXGraphStorage", "fim.graph.networkx_property_graph_disjoint.NetworkXGraphStorageDisjoint"]
    for (fl, progs) in scenarios(tier):
        key = "interleave/%s/%s" % (fl, "|".join("+".join("%s@g%d" % (op.replace('_to_graph', ''), gi + 1) for op, gi in th) for th in progs))
        rec = {"key": key, "encodes": enc,
               "bounds": "%s store, %d threads x %d operations, every interleaving at source-statement granularity (only state-relevant "
                         "statements are steps), imports of 2 nodes; one statement = one atomic step, acquire blocks" % (fl, len(progs), max(len(t) for t in progs))}
        t0 = time.time()
        try:
            verdict, schedule, info = B.bmc(fl, progs)
            rec.update(verdict=verdict, solver_checks=2, solver_s=info.get("solver_s"), paths=info.get("steps"), reach=1,
                       message="%s after %s global steps" % (verdict, info.get("steps")))
            if verdict == 'refuted':
                rp = B.replay(fl, progs, schedule)
                rec.update(witness=[list(x) for x in schedule], replay=rp,
                           message="schedule with a duplicate / misplaced internal id: model %s" % (info.get("model"),))
            elif verdict == 'error':
                rec["message"] = info.get("why")
        except B.CannotEncode as e:
            rec.update(verdict="error", message="CANNOT-ENCODE " + str(e))
        rec["wall_s"] = round(time.time() - t0, 2)
        results.append(rec)
    return results


def run(pid, tier, seed):
    from vf.run import check_property
    return check_property(pid, tier, seed, extra=lambda: stage(tier))
