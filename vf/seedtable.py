"""Append / refresh the seeded-change table at the end of DESIGN.md from seeded/*/meta.json (python -m vf.seedtable)."""
import glob
import json
import os

MARK = "\n## Appendix - seeded changes and which check catches them\n"


def main():
    rows = []
    for p in sorted(glob.glob("/verif/seeded/*/meta.json")):
        m = json.load(open(p))
        runs = m.get("check_runs", {})
        q = runs.get("quick", {})
        notes = ""
        try:
            txt = open(os.path.join(os.path.dirname(p), "notes.md")).read().strip().splitlines()
            notes = next((l.strip("# ").strip() for l in txt if l.strip()), "")[:110]
        except OSError:
            pass
        det = "caught (exit %s, %d VIOLATION line(s))" % (q.get("exit"), len(q.get("violation_lines", []))) if q.get("exit") == 1 else \
            ("MISSED (exit %s)" % q.get("exit") if q else "not run")
        first = (q.get("violation_lines") or [""])[0]
        hk = ""
        if "harness=" in first:
            hk = first.split("harness=", 1)[1].split()[0]
        rows.append("| %s | %s | %s | %s | %s |" % (m["seed"], ", ".join(m.get("files_changed", []))[:70], notes, det, hk))
    table = MARK + "\n| seed | files changed | what (from the sub-agent's notes) | `bin/check <id>` quick | first refuted harness |\n|---|---|---|---|---|\n" + "\n".join(rows) + "\n"
    s = open("/verif/DESIGN.md").read()
    if MARK in s:
        s = s[:s.index(MARK)]
    open("/verif/DESIGN.md", "w").write(s.rstrip("\n") + "\n" + table)
    print(len(rows), "seeds")


if __name__ == "__main__":
    main()
