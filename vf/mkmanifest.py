"""Regenerate /verif/MANIFEST.json from vf.props (python -m vf.mkmanifest)."""
import json
from vf.props import PROPS, NOT_APPLICABLE, PENDING

ALL = ["C%02d" % i for i in range(1, 21)]


def main():
    checks = []
    for pid in ALL:
        if pid not in PROPS:
            continue
        p = PROPS[pid]
        checks.append({
            "property_id": pid,
            "quick_cmd": "bin/check %s --tier quick" % pid,
            "thorough_cmd": "bin/check %s --tier thorough" % pid,
            "evidence_file": "/verif/evidence/%s.json" % pid,
            "replay_cmd_template": "bin/check replay {path}",
            "engine": p.get("engine", "crosshair+z3"),
            "level_claimed": {"category": p["level"], "text": p["level_text"], "design_ref": p.get("design_ref", "")},
            "level_note": p["level_note"],
            "technique": p.get("technique", "bounded symbolic execution of the real Python code (CrossHair) with z3 deciding every path"),
        })
    na = []
    for pid in ALL:
        if pid in PROPS:
            continue
        if pid in NOT_APPLICABLE:
            na.append({"property_id": pid, "reason": NOT_APPLICABLE[pid]})
        else:
            na.append({"property_id": pid, "reason": PENDING.get(pid, "check not built yet in this round (planned in DESIGN.md section 2); not claimed")})
    m = {
        "version": 1,
        "setup_cmd": "bin/setup",
        "hooks": {
            "guard": "FIM_VERIF",
            "enable": "none needed: harnesses bind stubs into module namespaces from the checking process; /repo carries no hook code",
            "baseline_off_cmd": "cd /repo && /venv/bin/python -m pytest -ra -q -p no:cacheprovider --timeout=900 --continue-on-collection-errors",
            "source_commits": [],
            "add_only": True,
        },
        "engines": [
            {"name": "crosshair+z3", "path": "/verif/vf/worker.py", "serves_properties": [c["property_id"] for c in checks if c["engine"].startswith("crosshair")],
             "kind_free_text": "CrossHair 0.0.110 symbolic execution of the repository's Python byte-code, z3 5.1 deciding every branch; one process per harness"},
        ],
        "checks": checks,
        "not_applicable": na,
        "notes": "All checks are solver-based (see DESIGN.md). exit 0 = held within stated bounds (INCONCLUSIVE harnesses are listed, not counted); exit 1 = replaying counterexample; exit 2 = harness error.",
    }
    json.dump(m, open("/verif/MANIFEST.json", "w"), indent=1)
    print("MANIFEST.json: %d checks, %d not_applicable" % (len(checks), len(na)))


if __name__ == "__main__":
    main()
