"""Harness prelude: environment stubs shared by all CrossHair harnesses (DESIGN.md 1.3).

Everything here is installed from the harness process by binding names in module
namespaces; /repo is never edited.  `install(tracing=True)` is used by the symbolic
worker, `install(tracing=False)` by the concrete replayer (which keeps only the
stubs that cannot change semantics for concrete values).
"""
import copy as _copy
from collections.abc import Mapping as _Mapping
import json as _real_json
import sys
import uuid as _uuid

from crosshair.tracers import NoTracing, is_tracing
from crosshair.util import CrossHairValue

# --------------------------------------------------------------------------- reach
COUNTERS = {"reach": 0, "begin": 0}


def R(x):
    """Identity used in every `post:`; counts paths that reach the postcondition
    with the precondition satisfied (vacuity witness, DESIGN 1.2)."""
    if is_tracing():
        with NoTracing():
            COUNTERS["reach"] += 1
    else:
        COUNTERS["reach"] += 1
    return x


def begin():
    """Reset per-path deterministic state (uuid counter, json tokens)."""
    if is_tracing():
        with NoTracing():
            _begin()
    else:
        _begin()


def _begin():
    COUNTERS["begin"] += 1
    _UUID_STATE[0] = 0
    JSONSHIM.reset()
    # fresh in-memory stores: the stores are process-wide singletons and would otherwise
    # carry graphs from one explored path into the next
    try:
        from fim.graph.networkx_property_graph import NetworkXGraphStorage
        NetworkXGraphStorage.storage_instance = None
    except Exception:
        pass
    try:
        from fim.graph.networkx_property_graph_disjoint import NetworkXGraphStorageDisjoint
        NetworkXGraphStorageDisjoint.storage_instance = None
    except Exception:
        pass


# --------------------------------------------------------------------------- symbolic detection
def _has_symbolic(obj, depth=0) -> bool:
    """Must be called with tracing OFF."""
    if isinstance(obj, CrossHairValue):
        return True
    t = type(obj)
    if t in (str, int, float, bool, type(None), bytes):
        return False
    if depth > 12:
        return False
    if isinstance(obj, dict):
        for k, v in obj.items():
            if _has_symbolic(k, depth + 1) or _has_symbolic(v, depth + 1):
                return True
        return False
    if isinstance(obj, (list, tuple, set, frozenset)):
        for v in obj:
            if _has_symbolic(v, depth + 1):
                return True
        return False
    return False


def has_symbolic(obj) -> bool:
    if is_tracing():
        with NoTracing():
            return _has_symbolic(obj)
    return _has_symbolic(obj)


# --------------------------------------------------------------------------- json shim
class _Tok(str):
    """A concrete str standing for the JSON text of a structure with symbolic leaves."""
    __slots__ = ()


class JsonShim:
    """Stand-in for the `json` module inside fim modules under test.

    dumps(obj): real JSON text for fully concrete objects; otherwise an opaque concrete
    token whose structure (key-sorted when sort_keys) is stored.  loads(token) returns a
    deep copy of the stored structure.  Assumption (validated concretely by selftest()):
    json.loads(json.dumps(x)) == x for dict/list/str/int/bool/float/None trees and dumps
    is deterministic.
    """
    JSONDecodeError = _real_json.JSONDecodeError
    JSONEncoder = _real_json.JSONEncoder
    JSONDecoder = _real_json.JSONDecoder

    def __init__(self):
        self.store = {}
        self.n = 0
        self.calls = 0
        self.symbolic_calls = 0

    def reset(self):
        self.store = {}
        self.n = 0

    # structure normalisation: what JSON would give back
    def _norm(self, obj, sort_keys):
        if isinstance(obj, (dict, _Mapping)):
            items = [(k, self._norm(v, sort_keys)) for k, v in obj.items()]
            if sort_keys:
                try:
                    with NoTracing():
                        concrete_keys = all(not isinstance(k, CrossHairValue) for k, _ in items)
                    if concrete_keys:
                        items.sort(key=lambda kv: kv[0])
                except TypeError:
                    pass
            return {k: v for k, v in items}
        if isinstance(obj, (list, tuple)):
            return [self._norm(v, sort_keys) for v in obj]
        return obj

    def dumps(self, obj, *a, **kw):
        self.calls += 1
        if not is_tracing():
            return _real_json.dumps(obj, *a, **kw)
        plain = self._norm(obj, False)
        with NoTracing():
            sym = _has_symbolic(plain)
        if not sym:
            with NoTracing():
                return _real_json.dumps(plain, *a, **kw)
        self.symbolic_calls += 1
        st = self._norm(obj, bool(kw.get("sort_keys", False)))
        with NoTracing():
            self.n += 1
            tok = _Tok("\x00JSON#%d" % self.n)
            self.store[str(tok)] = st
        return tok

    def loads(self, s, *a, **kw):
        if not is_tracing():
            return _real_json.loads(s, *a, **kw)
        with NoTracing():
            key = s if type(s) in (str, _Tok) else None
            st = self.store.get(str(key)) if key is not None else None
            hit = key is not None and str(key) in self.store
        if hit:
            return self._dup(st)
        return _real_json.loads(s, *a, **kw)

    def _dup(self, st):
        if isinstance(st, dict):
            return {k: self._dup(v) for k, v in st.items()}
        if isinstance(st, list):
            return [self._dup(v) for v in st]
        return st

    def structure(self, s):
        """Structure behind a text (token or real JSON); '' -> None."""
        with NoTracing():
            hit = type(s) in (str, _Tok) and str(s) in self.store
            st = self.store.get(str(s)) if hit else None
        if hit:
            return st
        if s is None or s == '':
            return None
        return _real_json.loads(s)

    def same_text(self, a, b) -> bool:
        """'identical text' == identical stored structure incl. key order."""
        sa, sb = self.structure(a), self.structure(b)
        return _same_struct(sa, sb)

    def __getattr__(self, name):
        return getattr(_real_json, name)


def _same_struct(a, b):
    if isinstance(a, dict):
        if not isinstance(b, dict) or len(a) != len(b):
            return False
        for (ka, va), (kb, vb) in zip(a.items(), b.items()):
            if ka != kb or not _same_struct(va, vb):
                return False
        return True
    if isinstance(a, list):
        if not isinstance(b, list) or len(a) != len(b):
            return False
        for va, vb in zip(a, b):
            if not _same_struct(va, vb):
                return False
        return True
    if isinstance(b, (dict, list)):
        return False
    if (a is None) != (b is None):
        return False
    if isinstance(a, bool) != isinstance(b, bool):
        return False
    return a == b


JSONSHIM = JsonShim()

# --------------------------------------------------------------------------- uuid
_UUID_STATE = [0]


def _det_uuid4():
    with NoTracing() if is_tracing() else _null():
        _UUID_STATE[0] += 1
        n = _UUID_STATE[0]
    return _uuid.UUID(int=(0x1234 << 100) + n)


class _null:
    def __enter__(self):
        return self

    def __exit__(self, *a):
        return False


# --------------------------------------------------------------------------- networkx
class PlainDict(dict):
    """Trivial dict subclass used as networkx dict factory so CrossHair does not
    substitute ShellMutableMap for graph containers (DESIGN 1.3)."""
    pass


def _patch_networkx():
    import networkx as nx
    for cls in (nx.Graph, nx.DiGraph, nx.MultiGraph, nx.MultiDiGraph):
        for attr in ("node_dict_factory", "node_attr_dict_factory", "adjlist_outer_dict_factory",
                     "adjlist_inner_dict_factory", "edge_attr_dict_factory", "graph_attr_dict_factory"):
            if hasattr(cls, attr):
                setattr(cls, attr, PlainDict)
    # warm up lazily compiled (argmap) functions concretely
    g = nx.Graph()
    g.add_node(1, a='x')
    g.add_node(2, a='y')
    g.add_node(3, a='z')
    g.add_edge(1, 2, Class='has')
    g.add_edge(2, 3, Class='has')
    g.add_edge(1, 3, Class='has')
    nx.to_dict_of_dicts(g)
    nx.from_dict_of_dicts(nx.to_dict_of_dicts(g))
    nx.convert_node_labels_to_integers(g, first_label=5)
    nx.shortest_path(g, 1, 3)
    list(nx.all_simple_paths(g, 1, 3))
    list(nx.shortest_simple_paths(g, 1, 3))
    nx.cycle_basis(g)
    nx.contracted_nodes(g, 1, 2)
    nx.node_link_data(g, edges="links")
    nx.compose(g, g)
    nx.is_connected(g)
    list(nx.connected_components(g))
    g.copy()
    g.subgraph([1, 2]).copy()
    nx.relabel_nodes(g, {1: 10})
    nx.set_node_attributes(g, {1: {'b': 1}})
    try:
        import networkx_query as nxq
        list(nxq.search_nodes(g, {'eq': [('a',), 'x']}))
        list(nxq.search_edges(g, {'eq': [('Class',), 'has']}))
    except Exception:
        pass


def _patch_shellmap():
    from crosshair.simplestructs import ShellMutableMap

    def copy(self):
        m = ShellMutableMap(self._inner)
        m._mutations = self._mutations.copy()
        m._len = self._len
        return m
    ShellMutableMap.copy = copy


# --------------------------------------------------------------------------- install
_INSTALLED = {"done": False}
JSON_MODULES = [
    "fim.slivers.capacities_labels", "fim.slivers.tags", "fim.slivers.json_data", "fim.slivers.gateway",
    "fim.slivers.path_info", "fim.slivers.maintenance_mode", "fim.slivers.delegations",
    "fim.slivers.json", "fim.graph.abc_property_graph", "fim.graph.networkx_property_graph",
    "fim.graph.networkx_property_graph_disjoint", "fim.graph.networkx_mixin", "fim.slivers.base_sliver",
    "fim.slivers.network_node", "fim.slivers.network_service", "fim.slivers.interface_info",
    "fim.slivers.attached_components", "fim.slivers.network_link", "fim.graph.resources.abc_arm",
    "fim.graph.resources.abc_adm", "fim.graph.resources.abc_cbm", "fim.graph.resources.neo4j_cbm",
    "fim.user.model_element", "fim.user.topology", "fim.user.node", "fim.user.component",
    "fim.user.interface", "fim.user.network_service", "fim.user.link", "fim.authz.attribute_collector",
    "fim.slivers.component_catalog", "fim.slivers.instance_catalog", "fim.graph.neo4j_property_graph",
]


def install(tracing=True, json_shim=True):
    if _INSTALLED["done"]:
        return
    _INSTALLED["done"] = True
    import importlib
    import logging
    logging.disable(logging.CRITICAL)
    if tracing:
        _patch_shellmap()
        _patch_networkx()
        _uuid.uuid4 = _det_uuid4
        if json_shim:
            for name in JSON_MODULES:
                try:
                    m = importlib.import_module(name)
                except Exception:
                    continue
                if getattr(m, "json", None) is _real_json:
                    m.json = JSONSHIM


def selftest():
    """Differential validation of the json shim assumption on concrete trees."""
    samples = [
        {"a": 1, "b": [1, 2, {"c": None}], "d": "x\"y\\z\n", "e": True, "f": 1.5, "g": -0.0, "h": ""},
        [], {}, [[], {}], {"k": [True, False, None]}, {"core": 2 ** 70, "ram": 0}, "s", 0, None,
        {"z": 1, "a": 2}, {"lat": -1.0, "lon": 0.0},
    ]
    n = 0
    for s in samples:
        for sk in (False, True):
            t = _real_json.dumps(s, sort_keys=sk)
            if _real_json.loads(t) != s:
                raise AssertionError("json round trip assumption fails for %r" % (s,))
            if _real_json.dumps(_real_json.loads(t), sort_keys=sk) != t:
                raise AssertionError("json determinism assumption fails for %r" % (s,))
            n += 1
    return n
