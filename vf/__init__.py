"""Solver-based checking machinery for fabric-testbed/InformationModel (see /verif/DESIGN.md)."""
