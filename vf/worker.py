"""One CrossHair analysis (or one concrete replay) of one harness, in its own process.

usage: python -m vf.worker <harness module> <key> <timeout_s> [--ppt S] [--replay CALLEXPR] [--twin]
Prints one line `RESULT <json>`.
"""
import argparse
import importlib
import json
import re
import sys
import time
import traceback


def _load(modname, key, tracing):
    from vf import prelude
    prelude.install(tracing=tracing)
    importlib.import_module(modname)
    from vf.registry import REG
    if key not in REG:
        raise KeyError("no harness %s in %s" % (key, modname))
    return REG[key], prelude


def _split_call(message):
    if " when calling " in message:
        head, call = message.rsplit(" when calling ", 1)
    elif message.startswith("when calling "):
        head, call = "", message[len("when calling "):]
    else:
        return message, None
    m = re.match(r"(?s)^(.*\))\s+\(which returns .*\)$", call)
    if m:
        call = m.group(1)
    return head, call


def analyze(modname, key, timeout, ppt, twin=False, extra_pre=()):
    t0 = time.time()
    h, prelude = _load(modname, key, tracing=True)
    import z3
    stats = {"checks": 0, "solver_s": 0.0}
    _orig_check = z3.Solver.check

    def _check(self, *a, **kw):
        t = time.perf_counter()
        try:
            return _orig_check(self, *a, **kw)
        finally:
            stats["checks"] += 1
            stats["solver_s"] += time.perf_counter() - t
    z3.Solver.check = _check

    import collections
    from crosshair.core_and_libs import analyze_function, run_checkables
    from crosshair.options import AnalysisOptionSet
    from crosshair.statespace import MessageType
    fn = h.fn
    # CrossHair may replace a call to a function that itself carries a contract by that contract's postcondition
    # (short-circuiting), which would make a harness vacuous: refuse harnesses that call contracted helpers.
    import inspect as _insp0
    import types as _types
    cv = _insp0.getclosurevars(fn)
    for _nm, _obj in list(cv.nonlocals.items()) + list(cv.globals.items()):
        if isinstance(_obj, _types.FunctionType) and _obj is not fn and _obj.__doc__ and 'post:' in _obj.__doc__:
            return {"key": key, "module": modname, "verdict": "error",
                    "message": "harness calls helper %s which carries its own contract (would be short-circuited)" % _nm}
    counter = collections.Counter()
    opts = AnalysisOptionSet(per_condition_timeout=float(timeout), report_all=True,
                             per_path_timeout=float(ppt) if ppt else None)
    checkables = analyze_function(fn, opts)
    res = {"key": key, "module": modname, "fn": fn.__name__, "timeout": timeout}
    if not checkables:
        res.update(verdict="error", message="no conditions found")
        return res
    from dataclasses import replace as _dc_replace
    from crosshair.condition_parser import condition_from_source_text, PRECONDITION, POSTCONDITION
    for c in checkables:
        if hasattr(c, "options"):
            c.options.stats = counter
        if hasattr(c, "conditions") and (twin or extra_pre):
            conds = c.conditions
            pre = list(conds.pre)
            post = list(conds.post)
            ln = post[0].line if post else 0
            import inspect as _insp
            _ns = dict(fn.__globals__)
            _ns.update(_insp.getclosurevars(fn).nonlocals)
            for src in extra_pre:
                # extra preconditions exclude the input class of a listed known finding
                pre.append(condition_from_source_text(PRECONDITION, post[0].filename, ln, src, _ns))
            if twin:
                # reachability twin: same pre/body, post False -> must come back refuted
                post = [condition_from_source_text(POSTCONDITION, post[0].filename, ln, "R(False)", _ns)]
            c.conditions = _dc_replace(conds, pre=pre, post=post)
    res["extra_pre"] = list(extra_pre)
    res["twin"] = bool(twin)
    cpu0 = time.process_time()
    msgs = run_checkables(checkables)
    res["cpu_s"] = round(time.process_time() - cpu0, 2)
    res["wall_s"] = round(time.time() - t0, 2)
    res["paths"] = counter.get("num_paths", 0)
    res["reach"] = prelude.COUNTERS["reach"]
    res["solver_checks"] = stats["checks"]
    res["solver_s"] = round(stats["solver_s"], 2)
    res["json_symbolic_dumps"] = prelude.JSONSHIM.symbolic_calls
    worst = None
    for m in msgs:
        if worst is None or m.state > worst.state:
            worst = m
    if worst is None:
        res.update(verdict="error", message="no messages")
        return res
    res["state"] = worst.state.name
    res["message"] = worst.message
    if worst.state == MessageType.CONFIRMED:
        res["verdict"] = "confirmed"
    elif worst.state == MessageType.CANNOT_CONFIRM:
        res["verdict"] = "unknown"
    elif worst.state == MessageType.PRE_UNSAT:
        res["verdict"] = "pre_unsat"
    elif worst.state in (MessageType.POST_FAIL, MessageType.EXEC_ERR, MessageType.POST_ERR):
        head, call = _split_call(worst.message)
        res["verdict"] = "refuted"
        res["why"] = head
        res["call"] = call
        res["traceback"] = (worst.traceback or "")[-1500:]
    else:
        res["verdict"] = "error"
    return res


def replay(modname, key, callexpr):
    """Concrete re-execution of a counterexample against the real code, no tracing."""
    h, prelude = _load(modname, key, tracing=False)
    mod = sys.modules[modname]
    ns = dict(mod.__dict__)
    ns[h.fn.__name__] = h.fn
    res = {"key": key, "module": modname, "call": callexpr}
    try:
        out = eval(callexpr, ns)
        res["returned"] = repr(out)[:300]
        res["reproduced"] = not bool(out)
    except Exception as e:  # the harness treats any exception as a violation
        res["raised"] = "%s: %s" % (type(e).__name__, str(e)[:300])
        res["traceback"] = traceback.format_exc()[-1500:]
        res["reproduced"] = True
        # an exception raised by a statement of the harness itself (innermost frame under /verif)
        # is a harness bug, not a property violation
        tb = traceback.extract_tb(e.__traceback__)
        if tb and tb[-1].filename.startswith("/verif/"):
            res["harness_error"] = True
            res["reproduced"] = False
    # preconditions: evaluate them concretely too, so a cex outside pre: is not accepted
    try:
        from crosshair.condition_parser import Pep316Parser
        conds = Pep316Parser().get_fn_conditions(__import__("crosshair.fnutil", fromlist=["FunctionInfo"]).FunctionInfo.from_fn(h.fn))
        import ast
        call = ast.parse(callexpr, mode="eval").body
        import inspect
        sig = inspect.signature(h.fn)
        args = [eval(compile(ast.Expression(a), "<arg>", "eval"), ns) for a in call.args]
        kwargs = {k.arg: eval(compile(ast.Expression(k.value), "<arg>", "eval"), ns) for k in call.keywords}
        bound = sig.bind(*args, **kwargs)
        bound.apply_defaults()
        pre_ok = True
        for p in conds.pre:
            g = dict(h.fn.__globals__)
            g.update(inspect.getclosurevars(h.fn).nonlocals)
            if not eval(p.expr_source, g, dict(bound.arguments)):
                pre_ok = False
        res["pre_ok"] = pre_ok
        if not pre_ok:
            res["reproduced"] = False
    except Exception as e:
        res["pre_check_error"] = "%s: %s" % (type(e).__name__, e)
    return res


def main():
    ap = argparse.ArgumentParser()
    ap.add_argument("module")
    ap.add_argument("key")
    ap.add_argument("timeout", type=float, nargs="?", default=60)
    ap.add_argument("--ppt", type=float, default=None)
    ap.add_argument("--replay", default=None)
    ap.add_argument("--twin", action="store_true")
    ap.add_argument("--extra-pre", action="append", default=[])
    a = ap.parse_args()
    try:
        if a.replay is not None:
            res = replay(a.module, a.key, a.replay)
        else:
            res = analyze(a.module, a.key, a.timeout, a.ppt, a.twin, tuple(a.extra_pre))
    except BaseException as e:
        res = {"key": a.key, "module": a.module, "verdict": "error",
               "message": "%s: %s" % (type(e).__name__, e), "traceback": traceback.format_exc()[-3000:]}
    sys.stdout.write("\nRESULT " + json.dumps(res, default=str) + "\n")
    sys.stdout.flush()


if __name__ == "__main__":
    main()
